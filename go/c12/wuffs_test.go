package c12

// Sub-check (a): wuffsfmt's pipeline (token.Tokenize + parse.Parse +
// render.Render, exactly as cmd/wuffsfmt/main.go's do function) changes only
// white space and is idempotent.
//
// Inputs are top-level declarations of std/*/*.wuffs, hand-written snippets
// and generated name-alignment blocks, passed through a de-formatter that
// randomises everything the formatter owns. A case is just the de-formatted
// source text, so it is replayable on its own.

import (
	"bytes"
	"fmt"
	"os"
	"path/filepath"
	"sort"
	"strings"
	"sync"
	"testing"

	"github.com/google/wuffs/lang/parse"
	"github.com/google/wuffs/lang/render"
	t "github.com/google/wuffs/lang/token"
	"pgregory.net/rapid"

	"verif/internal/ev"
)

// WuffsCase fully determines one formatter check.
type WuffsCase struct {
	Src    string   `json:"src"`
	Origin string   `json:"origin,omitempty"` // informational
	Tags   []string `json:"tags,omitempty"`   // informational: what the de-formatter did
}

const maxWuffsLen = 64 << 10

var parseOpts = &parse.Options{AllowDoubleUnderscoreNames: true}

// ---------------------------------------------------------------------------
// Oracle.

type comPos struct {
	pos  int // number of non-semicolon tokens before the comment
	text string
}

type lexed struct {
	tm       *t.Map
	toks     []t.Token
	comments []string
	seq      []string // token spellings; numbers normalised; ";" for every semicolon
	coms     []comPos
}

// normNum maps a numeric literal to its value-preserving normal form: digit
// grouping underscores removed, letters (0X, 0B, hex digits) lower-cased.
func normNum(s string) string {
	if s == "" || s[0] < '0' || s[0] > '9' {
		return s
	}
	return strings.ToLower(strings.ReplaceAll(s, "_", ""))
}

func trimRightWS(s string) string {
	for len(s) > 0 && s[len(s)-1] <= ' ' {
		s = s[:len(s)-1]
	}
	return s
}

func lexWuffs(src []byte) (*lexed, error) {
	l := &lexed{tm: &t.Map{}}
	var err error
	l.toks, l.comments, err = t.Tokenize(l.tm, "c12.wuffs", src)
	if err != nil {
		return nil, err
	}
	l.seq = make([]string, len(l.toks))
	ti, n := 0, 0
	for line, c := range l.comments {
		if c == "" {
			continue
		}
		for ti < len(l.toks) && l.toks[ti].Line <= uint32(line) {
			if l.toks[ti].ID != t.IDSemicolon {
				n++
			}
			ti++
		}
		l.coms = append(l.coms, comPos{n, trimRightWS(c)})
	}
	for i, tok := range l.toks {
		if tok.ID == t.IDSemicolon {
			l.seq[i] = ";"
		} else {
			l.seq[i] = normNum(l.tm.ByID(tok.ID))
		}
	}
	return l, nil
}

func (l *lexed) parse() error {
	_, err := parse.Parse(l.tm, "c12.wuffs", l.toks, parseOpts)
	return err
}

func (l *lexed) render() ([]byte, error) {
	buf := &bytes.Buffer{}
	if err := render.Render(buf, l.tm, l.toks, l.comments); err != nil {
		return nil, err
	}
	return buf.Bytes(), nil
}

func around(seq []string, i int) string {
	lo, hi := max(0, i-6), min(len(seq), i+4)
	return strings.Join(seq[lo:hi], " ")
}

func checkWuffs(c WuffsCase) (msg string, nontrivial bool, classes []string) {
	src := []byte(c.Src)
	tag := func(prefix string) []string {
		out := []string{prefix}
		for _, g := range c.Tags {
			if strings.HasPrefix(g, "bad-") {
				out = append(out, prefix+"+"+g)
			}
		}
		return out
	}
	if len(src) > maxWuffsLen {
		return "", false, []string{"wuffs/skip:too-long"}
	}
	in, err := lexWuffs(src)
	if err != nil {
		return "", false, tag("wuffs/rejected-by-tokenizer")
	}
	// A source on which the parser returns an error, or panics (that is
	// property C11's business: DESIGN section 5, T1), is not accepted.
	if err := func() (err error) {
		defer func() {
			if r := recover(); r != nil {
				err = fmt.Errorf("panic: %v", r)
			}
		}()
		return in.parse()
	}(); err != nil {
		if strings.HasPrefix(err.Error(), "panic: ") {
			return "", false, tag("wuffs/rejected-by-parser-panic(C11)")
		}
		return "", false, tag("wuffs/rejected-by-parser")
	}
	out1, err := in.render()
	if err != nil {
		// The property quantifies over sources "the formatter accepts": a Render
		// error means wuffsfmt rejects the source (an ordinary error, which is
		// C11's business). Design-phase note F2 (Render refuses some parsable
		// sources with several statements on one line) is therefore recorded
		// as a class, not judged.
		return "", false, tag("wuffs/rejected-by-render")
	}
	o, err := lexWuffs(out1)
	if err != nil {
		return "the formatted output does not tokenize: " + err.Error(), false, nil
	}
	for i := 0; i < len(in.seq) || i < len(o.seq); i++ {
		if i >= len(in.seq) || i >= len(o.seq) || in.seq[i] != o.seq[i] {
			return fmt.Sprintf("token streams differ at token %d (input has %d, output %d): input …%s…, output …%s…",
				i, len(in.seq), len(o.seq), around(in.seq, i), around(o.seq, i)), false, nil
		}
	}
	for i := 0; i < len(in.coms) || i < len(o.coms); i++ {
		if i >= len(in.coms) || i >= len(o.coms) || in.coms[i] != o.coms[i] {
			var a, b comPos
			if i < len(in.coms) {
				a = in.coms[i]
			}
			if i < len(o.coms) {
				b = o.coms[i]
			}
			return fmt.Sprintf("comments differ at comment %d (input has %d, output %d): input %q after %d tokens, output %q after %d tokens",
				i, len(in.coms), len(o.coms), a.text, a.pos, b.text, b.pos), false, nil
		}
	}
	if err := o.parse(); err != nil {
		return "the formatted output does not parse: " + err.Error(), false, nil
	}
	out2, err := o.render()
	if err != nil {
		return "Render fails on its own output: " + err.Error(), false, nil
	}
	if !bytes.Equal(out1, out2) {
		i := 0
		for i < len(out1) && i < len(out2) && out1[i] == out2[i] {
			i++
		}
		lo := max(0, i-60)
		return fmt.Sprintf("not idempotent: outputs differ at byte %d: first %q, second %q", i,
			clip(out1[lo:min(len(out1), i+60)]), clip(out2[lo:min(len(out2), i+60)])), false, nil
	}

	// Shape classes, measured on the input.
	add := func(b bool, name string) {
		if b {
			classes = append(classes, "wuffs/"+name)
		}
	}
	changed := !bytes.Equal(out1, src)
	sh := shapeOf(in)
	classes = append(classes, "wuffs/accepted")
	add(changed, "output-differs-from-input")
	add(sh.comments > 0, "has-comment")
	add(sh.trailing > 0, "trailing-comment")
	add(sh.ownLine > 0, "own-line-comment")
	add(sh.beforeClose > 0, "comment-before-close-curly")
	add(sh.atEOF > 0, "comment-at-eof")
	add(sh.multiLine, "multi-line-construct")
	add(sh.longHanging, "hanging-3-or-more-lines")
	add(sh.doubleCurly, "double-curly-block")
	add(sh.varRun >= 2, "var-run-2+")
	add(sh.varRun >= 5, "var-run-5+")
	add(sh.constRun >= 2, "const-run-2+")
	add(sh.fieldRun >= 2, "field-run-2+")
	add(sh.fieldRun >= 6, "field-run-6+")
	add(sh.numbers > 0, "has-number")
	add(sh.midLineSemi, "semicolon-mid-line")
	for _, g := range c.Tags {
		classes = append(classes, "wuffs/deformat:"+g)
	}
	if i := strings.IndexByte(c.Origin, ':'); i > 0 {
		classes = append(classes, "wuffs/origin:"+c.Origin[:i])
	}
	return "", changed && sh.comments > 0 && sh.multiLine, classes
}

type shape struct {
	comments, trailing, ownLine, beforeClose, atEOF  int
	multiLine, longHanging, doubleCurly, midLineSemi bool
	varRun, constRun, fieldRun, numbers              int
}

func shapeOf(l *lexed) (s shape) {
	// group tokens by line
	type ln struct {
		line     uint32
		lo, hi   int
		endsSemi bool
	}
	var lines []ln
	for i := 0; i < len(l.toks); {
		j := i
		for j < len(l.toks) && l.toks[j].Line == l.toks[i].Line {
			j++
		}
		lines = append(lines, ln{l.toks[i].Line, i, j, l.toks[j-1].ID == t.IDSemicolon})
		i = j
	}
	hasTok := map[uint32]int{}
	for k, x := range lines {
		hasTok[x.line] = k + 1
	}
	lastLine := uint32(0)
	if len(lines) > 0 {
		lastLine = lines[len(lines)-1].line
	}
	for line, c := range l.comments {
		if c == "" {
			continue
		}
		s.comments++
		if hasTok[uint32(line)] != 0 {
			s.trailing++
			continue
		}
		s.ownLine++
		if uint32(line) > lastLine {
			s.atEOF++
			continue
		}
		// the next line holding tokens
		k := sort.Search(len(lines), func(k int) bool { return lines[k].line > uint32(line) })
		if k < len(lines) && l.toks[lines[k].lo].ID == t.IDCloseCurly {
			s.beforeClose++
		}
	}
	hang := 0
	varRun, constRun, fieldRun := 0, 0, 0
	prevLine := uint32(0)
	for k, x := range lines {
		if !x.endsSemi && k+1 < len(lines) {
			s.multiLine = true
			hang++
			if hang >= 3 {
				s.longHanging = true
			}
		} else {
			hang = 0
		}
		adjacent := x.line == prevLine+1
		prevLine = x.line
		id0 := l.toks[x.lo].ID
		var id1 t.ID
		if x.hi-x.lo > 1 {
			id1 = l.toks[x.lo+1].ID
		}
		step := func(run *int, cond bool, best *int) {
			if cond {
				if adjacent && *run > 0 {
					*run++
				} else {
					*run = 1
				}
				*best = max(*best, *run)
			} else {
				*run = 0
			}
		}
		step(&varRun, id0 == t.IDVar, &s.varRun)
		step(&constRun, (id0 == t.IDPri || id0 == t.IDPub) && id1 == t.IDConst, &s.constRun)
		step(&fieldRun, id1 == t.IDColon && x.hi-x.lo >= 4 && id0 != t.IDVar, &s.fieldRun)
		for i := x.lo; i < x.hi; i++ {
			id := l.toks[i].ID
			if id == t.IDOpenDoubleCurly {
				s.doubleCurly = true
			}
			if id == t.IDSemicolon && i+1 < x.hi {
				s.midLineSemi = true
			}
			if id.IsNumLiteral(l.tm) {
				s.numbers++
			}
		}
	}
	return s
}

func runWuffsCase(tt fataler, c WuffsCase) {
	ev.Eval()
	msg, nt, classes := func() (msg string, nt bool, cl []string) {
		defer func() {
			if r := recover(); r != nil {
				msg = fmt.Sprintf("panic: %v", r)
			}
		}()
		return checkWuffs(c)
	}()
	if msg != "" {
		ev.Fail("C12", "wuffsfmt", c, msg)
		tt.Fatalf("C12 violated (wuffsfmt): %s\norigin: %s\nsource: %q", msg, c.Origin, clip([]byte(c.Src)))
	}
	for _, cl := range classes {
		ev.Class(cl)
	}
	if nt {
		ev.Nontrivial(ev.Hash("wuffs", c.Src), func() any {
			s := c
			if len(s.Src) > 600 {
				s.Src = s.Src[:600] + "…(cut)"
			}
			return s
		})
	}
}

// ---------------------------------------------------------------------------
// Source material: top-level declarations as element lists.

type wElem struct {
	kind    byte // 'T' token, 'S' semicolon, 'C' comment
	s       string
	capable bool   // a newline right after this token inserts an implicit semicolon
	line    uint32 // line in the original source
}

type wUnit struct {
	origin string
	elems  []wElem
}

// unitsOf splits an accepted source into its top-level declarations.
func unitsOf(origin string, src []byte) ([]wUnit, error) {
	l, err := lexWuffs(src)
	if err != nil {
		return nil, err
	}
	if err := l.parse(); err != nil {
		return nil, err
	}
	var all []wElem
	cl := 0
	flush := func(upto uint32) {
		for ; cl < len(l.comments) && uint32(cl) < upto; cl++ {
			if l.comments[cl] != "" {
				all = append(all, wElem{kind: 'C', s: trimRightWS(l.comments[cl]), line: uint32(cl)})
			}
		}
	}
	for _, tok := range l.toks {
		flush(tok.Line)
		if tok.ID == t.IDSemicolon {
			all = append(all, wElem{kind: 'S', s: ";", line: tok.Line})
		} else {
			all = append(all, wElem{kind: 'T', s: l.tm.ByID(tok.ID), capable: tok.ID.IsImplicitSemicolon(l.tm), line: tok.Line})
		}
	}
	flush(1 << 30)

	var units []wUnit
	depth, start := 0, 0
	for i := 0; i < len(all); i++ {
		e := all[i]
		if e.kind == 'T' {
			switch e.s {
			case "(", "[", "{", "{{":
				depth++
			case ")", "]", "}", "}}":
				depth--
			}
		}
		if e.kind == 'S' && depth == 0 {
			end := i + 1
			if end < len(all) && all[end].kind == 'C' && all[end].line == e.line {
				end++
			}
			units = append(units, wUnit{origin: fmt.Sprintf("%s#%d", origin, len(units)), elems: all[start:end:end]})
			start = end
			i = end - 1
		}
	}
	if start < len(all) {
		if len(units) == 0 {
			return nil, fmt.Errorf("no top-level declaration in %s", origin)
		}
		u := &units[len(units)-1]
		u.elems = append(u.elems, all[start:]...)
	}
	return units, nil
}

var snippets = []string{
	`use "std/crc32"

pub status "#bad header"
pri status "$short read"
pub status "@end of data"

pub const DECODER_WORKBUF_LEN_MAX_INCL_WORST_CASE : base.u64 = 0
pri const X : base.u32 = 0x1234_ABCD
pri const A_LONGER_NAME : base.u8[..= 200] = 0b1010_0101
pri const N : base.u64 = 18_446744_073709_551615
`,
	`pri const TABLE : roarray[8] base.u16[..= 0x0FFF] = [
        0x0000, 0x0001, 0x0003, 0x0007,  // first row
        // an own-line comment in a list
        0x000F, 0x001F, 0x003F, 0x007F,
]

pri const NESTED : roarray[2] roarray[3] base.u8 = [
        [1, 2, 3],
        [40, 50, 60],
]
`,
	`pub struct decoder? implements base.image_decoder(
        // leading field comment
        width  : base.u32,
        height : base.u32[..= 0xFFFF],

        call_sequence : base.u8,  // trailing field comment
        a             : array[4] base.u8,
        util          : base.utility,
) + (
        buf    : array[8192] base.u8,
        tables : array[2] array[1024] base.u32,
)

pri struct tiny(
        x : base.bool,
)

pub struct empty?()
`,
	`pub func decoder.decode?(dst: base.io_writer, src: base.io_reader, workbuf: slice base.u8) {
    var c8      : base.u8
    var n       : base.u32[..= 255]
    var very_long_variable_name : base.u64
    var s       : slice base.u8
    var status  : base.status

    c8 = args.src.read_u8?()
    n = (c8 as base.u32) & 0xFF
    if n == 0 {
        return base."#bad header"
    } else if (n < 16) and (c8 <> 0x2A) {
        n += 1
    } else {
        // comment before a close curly
    }
    while n > 0,
            inv this.width <= 0xFFFF,
            post n == 0,
    {
        n -= 1
    }
    status = this.helper?(x: - 1, y: not true, z: - n + (- 3))
    yield? base."$short read"
    return ok
}
`,
	`pri func decoder.helper!(x: base.u32, y: base.bool) base.u32 {
    var i : base.u32
    var v : base.u32

    while.outer true {{
    while.inner true,
            inv v >= 0,
    {{
    if i == 2 {
        break.outer
    } else if i == 3 {
        return 3
    }
    i += 1
    break.inner
    }}.inner
    return v
    }}.outer

    while.once true {{
    v = 1
    break.once
    }}.once
    return (this.width ~mod+ (v ~sat- 1)) ~mod* 3
}
`,
	`pri func decoder.hang!(src: roslice base.u8),
        choosy,
{
    var p : roslice base.u8
    var q : base.u64

    q = ((args.src.length() & 0xFFFF_FFFF) << 3) |
            (this.width as base.u64) |
            ((this.height as base.u64) <<
            16)
    assert q >= 0 via "a >= b: b <= a"()
    assert (q + 1) > 0
    iterate (p = args.src)(length: 4, advance: 4, unroll: 2) {
        q ~mod+= p.peek_u32le_as_u64()
    } else (length: 1, advance: 1, unroll: 1) {
        q ~mod+= p[0] as base.u64
    }
    choose helper = [
            helper_a,
            helper_b]
    this.foo!(
            a: 1,
            b: args.src[.. 2],
            c: args.src[1 .. 2],
            d: args.src[..],
    )
}
`,
	`pub func decoder.io!(dst: base.io_writer, src: base.io_reader) {
    var r    : base.io_reader
    var mark : base.u64

    io_bind (io: r, data: this.buf[this.ri .. this.wi], history_position: 0) {
        mark = r.mark()
        this.consume!(src: r)
    }
    io_limit (io: args.src, limit: 4) {
        this.consume!(src: args.src)
    }
    io_forget_history (io: args.dst) {
        this.produce!(dst: args.dst)
    }
    if args.src.length() > 0 { this.x = 'ab'be; } else { this.x = '\x01\x02\x03\x04'le; }
    this.y = 'z' + 0x7A
}
`,
	`// file comment, first line
//
// after an empty comment

// detached comment

pub func decoder.comments() base.u32 {  // after open curly
    // only comments
    //
    return 0  // trailing
    // before close
}  // after close

// comment at the end of the file
`,
	`pri func foo.choose_cpu!(),
        choose cpu_arch >= x86_sse42,
{
    var util : base.x86_sse42_utility
    var a    : base.x86_m128i

    a = util.make_m128i_multiple_u8(
            a00: 0x00, a01: 0x01, a02: 0x02, a03: 0x03,
            a04: 0x04, a05: 0x05, a06: 0x06, a07: 0x07,
            a08: 0x08, a09: 0x09, a10: 0x0A, a11: 0x0B,
            a12: 0x0C, a13: 0x0D, a14: 0x0E, a15: 0x0F)
}
`,
}

var (
	wuffsOnce  sync.Once
	wuffsFiles [][]wUnit // per std file
	wuffsSnips [][]wUnit
	wuffsPaths []string
)

func loadWuffs() {
	root := ev.RepoRoot()
	paths, _ := filepath.Glob(filepath.Join(root, "std", "*", "*.wuffs"))
	more, _ := filepath.Glob(filepath.Join(root, "test", "*", "*.wuffs"))
	paths = append(paths, more...)
	more, _ = filepath.Glob(filepath.Join(root, "test", "*", "*", "*.wuffs"))
	paths = append(paths, more...)
	sort.Strings(paths)
	for _, p := range paths {
		b, err := os.ReadFile(p)
		if err != nil {
			continue
		}
		rel, _ := filepath.Rel(root, p)
		us, err := unitsOf("std:"+rel, b)
		if err != nil {
			// Not accepted by wuffsfmt's pipeline: outside the quantifier.
			ev.Note("not accepted by the wuffsfmt pipeline, skipped: " + rel + ": " + err.Error())
			continue
		}
		wuffsFiles = append(wuffsFiles, us)
		wuffsPaths = append(wuffsPaths, p)
	}
	if len(wuffsFiles) == 0 {
		panic("C12: no std/*/*.wuffs file accepted under " + root)
	}
	for i, s := range snippets {
		us, err := unitsOf(fmt.Sprintf("snippet:%d", i), []byte(s))
		if err != nil {
			panic(fmt.Sprintf("C12: snippet %d is not accepted: %v", i, err))
		}
		wuffsSnips = append(wuffsSnips, us)
	}
}

// ---------------------------------------------------------------------------
// Generated name-alignment blocks.

var (
	wTypes = []string{"base.u8", "base.u32", "base.u64[..= 4095]", "base.bool", "array[4] base.u8", "slice base.u8",
		"roslice base.u32", "base.io_reader", "nptr decoder", "table base.u8", "array[2] array[256] base.u16[1 ..= 0xFF]"}
	wExtraTypes = []string{"base.u8", "base.u32", "array[4] base.u8", "array[8192] base.u64", "array[2] array[256] base.u16", "other.thing"}
	wNums       = []string{"0", "1", "7", "255", "256", "1000", "65535", "65536", "1234567", "0x0", "0xFF", "0x1234",
		"0xABCDE", "0xDEAD_BEEF", "0x1_0000_0000", "0xFFFF_FFFF_FFFF_FFFF", "0b1", "0b1010", "0b1_0000_0000",
		"18_446744_073709_551615", "123456", "1234567", "0x0123456789abcdef", "4_2"}
)

func genName(tt *rapid.T, upper bool) string {
	n := ir(1, 24).Draw(tt, "nameLen")
	var b strings.Builder
	for i := 0; i < n; i++ {
		c := byte('a' + (i*7+n)%26)
		if i > 0 && i%5 == 4 {
			c = '_'
		}
		if upper && c != '_' {
			c -= 'a' - 'A'
		}
		b.WriteByte(c)
	}
	s := b.String()
	if s[len(s)-1] == '_' {
		s = s[:len(s)-1] + "q"
		if upper {
			s = s[:len(s)-1] + "Q"
		}
	}
	// stay clear of keywords and built-ins: a digit suffix does it
	return s + fmt.Sprint(n%10)
}

// genBlocks writes a source consisting of const runs, a struct and a function
// with var runs, with names of drawn lengths.
func genBlocks(tt *rapid.T) string {
	var b strings.Builder
	nc := ir(0, 6).Draw(tt, "nConst")
	for i := 0; i < nc; i++ {
		vis := "pri"
		if ir(0, 2).Draw(tt, "pub") == 0 {
			vis = "pub"
		}
		fmt.Fprintf(&b, "%s const %s : %s = %s\n", vis, genName(tt, true), pick(tt, "type", wTypes[:3]), pick(tt, "num", wNums))
		if ir(0, 5).Draw(tt, "gap") == 0 {
			b.WriteString("\n")
		}
	}
	if ir(0, 3).Draw(tt, "struct") > 0 {
		b.WriteString("\npub struct thing? implements base.hasher_u32(\n")
		for part := 0; part < 2; part++ {
			nf := ir(0, 9).Draw(tt, "nFields")
			for i := 0; i < nf; i++ {
				switch ir(0, 9).Draw(tt, "fieldExtra") {
				case 0:
					b.WriteString("\n")
				case 1:
					b.WriteString("        // a field comment\n")
				}
				types := wTypes
				if part == 1 {
					types = wExtraTypes // "+ (...)" fields: unrefined numeric types and arrays of them
				}
				fmt.Fprintf(&b, "        %s : %s,", genName(tt, false), pick(tt, "type", types))
				if ir(0, 6).Draw(tt, "fieldTrail") == 0 {
					b.WriteString("  // trailing")
				}
				b.WriteString("\n")
			}
			if part == 0 {
				if ir(0, 1).Draw(tt, "plus") == 0 {
					break
				}
				b.WriteString(") + (\n")
			}
		}
		b.WriteString(")\n")
	}
	if ir(0, 3).Draw(tt, "func") > 0 {
		b.WriteString("\npri func thing.work!(x: base.u32) base.u32 {\n")
		nv := ir(0, 9).Draw(tt, "nVars")
		for i := 0; i < nv; i++ {
			switch ir(0, 9).Draw(tt, "varExtra") {
			case 0:
				b.WriteString("\n")
			case 1:
				b.WriteString("    // a var comment\n")
			}
			fmt.Fprintf(&b, "    var %s : %s", genName(tt, false), pick(tt, "type", wTypes))
			if ir(0, 6).Draw(tt, "varTrail") == 0 {
				b.WriteString("  // trailing")
			}
			b.WriteString("\n")
		}
		ns := ir(0, 5).Draw(tt, "nStmts")
		for i := 0; i < ns; i++ {
			switch ir(0, 5).Draw(tt, "stmt") {
			case 0:
				fmt.Fprintf(&b, "    this.a = args.x + %s\n", pick(tt, "num", wNums))
			case 1:
				fmt.Fprintf(&b, "    if args.x > %s {\n        return - %s\n    }\n", pick(tt, "num", wNums), pick(tt, "num", wNums))
			case 2:
				fmt.Fprintf(&b, "    this.b = (%s - - %s) * (+ %s)\n", pick(tt, "num", wNums), pick(tt, "num", wNums), pick(tt, "num", wNums))
			case 3:
				fmt.Fprintf(&b, "    this.c = args.y[%s .. %s]\n", pick(tt, "num", wNums), pick(tt, "num", wNums))
			case 4:
				fmt.Fprintf(&b, "    while.l%d true {{\n    this.d = not this.d\n    break.l%d\n    }}.l%d\n", i, i, i)
			default:
				fmt.Fprintf(&b, "    // between statements\n    this.e ~mod+= %s\n", pick(tt, "num", wNums))
			}
		}
		b.WriteString("    return 0\n}\n")
	}
	if b.Len() == 0 {
		b.WriteString("pub status \"#nothing\"\n")
	}
	return b.String()
}

// ---------------------------------------------------------------------------
// De-formatter.

type wStyle struct {
	tight, wide, split, badSplit, join, blank, comment, explSemi, indent, trailWS, num byte
	crlf, noFinalNL                                                                    bool
}

var levels = []int{0, 0, 6, 30, 100, 255}

func genStyle(tt *rapid.T) wStyle {
	lv := func(name string) byte { return byte(levels[ir(0, len(levels)-1).Draw(tt, name)]) }
	s := wStyle{tight: lv("tight"), wide: lv("wide"), split: lv("split"), join: lv("join"), blank: lv("blank"),
		comment: lv("comment"), explSemi: lv("explSemi"), indent: lv("indent"), trailWS: lv("trailWS"), num: lv("num")}
	if ir(0, 7).Draw(tt, "bad") == 0 {
		s.badSplit = 3
	}
	s.crlf = ir(0, 9).Draw(tt, "crlf") == 0
	s.noFinalNL = ir(0, 5).Draw(tt, "noFinalNL") == 0
	return s
}

// hit decides one yes/no question from 8 bits; all-zero bits always say no,
// so that shrinking moves towards the plain layout.
func hit(b uint64, shift uint, level byte) bool {
	v := byte(b >> shift)
	return level > 0 && v > 255-level
}

var (
	safeMu    sync.Mutex
	safeCache = map[[2]string]bool{}
)

// tightSafe reports whether a and b can be written without a separator and
// still lex as exactly a, b.
func tightSafe(a, b string) bool {
	k := [2]string{a, b}
	safeMu.Lock()
	v, ok := safeCache[k]
	safeMu.Unlock()
	if ok {
		return v
	}
	tm := &t.Map{}
	toks, com, err := t.Tokenize(tm, "", []byte(a+b+" \n "))
	v = err == nil && len(com) == 0 && len(toks) >= 2 && tm.ByID(toks[0].ID) == a && tm.ByID(toks[1].ID) == b &&
		(len(toks) == 2 || (len(toks) == 3 && toks[2].ID == t.IDSemicolon))
	safeMu.Lock()
	safeCache[k] = v
	safeMu.Unlock()
	return v
}

var insComments = []string{"// x", "//", "//  two  spaces  ", "// trailing tab\t", "//// slashes //", "// é ü → unicode",
	"// \"quoted\" 'q' {", "// }", "//\ttab", "//x", "// ;", "// pub struct foo(", "//   ", "// 0x_ff"}

var wsChoices = []string{" ", "  ", "\t", " \t", "    ", "\t\t", "   \t  ", "\f", " \v "}

var indentChoices = []string{"", " ", "    ", "        ", "\t", "\t\t", "  \t", "            ", "                    "}

// respell rewrites a numeric literal: prefix case, hex digit case, underscores.
func respell(s string, bits uint64) string {
	prefix, digits := "", s
	if len(s) >= 2 && s[0] == '0' && (s[1] == 'x' || s[1] == 'X' || s[1] == 'b' || s[1] == 'B') {
		prefix, digits = s[:2], s[2:]
	}
	digits = strings.ReplaceAll(digits, "_", "")
	if digits == "" {
		return s
	}
	next := func() bool { v := bits&1 != 0; bits = bits>>1 | bits<<63; return v }
	var b strings.Builder
	if prefix != "" {
		b.WriteByte('0')
		c := prefix[1] | 0x20
		if next() {
			c &^= 0x20
		}
		b.WriteByte(c)
		if next() && next() {
			b.WriteByte('_') // "0x_12" is accepted by the tokenizer
		}
	}
	for i := 0; i < len(digits); i++ {
		c := digits[i]
		if c >= 'A' {
			c |= 0x20
			if next() {
				c &^= 0x20
			}
		}
		if i > 0 && next() && next() {
			b.WriteByte('_')
		}
		b.WriteByte(c)
	}
	return b.String()
}

type deformatter struct {
	tt   *rapid.T
	st   wStyle
	b    strings.Builder
	tags map[string]bool

	col0    bool // nothing but blanks on the current line so far
	prevCap bool // the last token on the current line is implicit-semicolon capable
	needNL  bool // an implicit semicolon is owed: the next separator must contain a newline
	prevStr string
	prevLn  uint32
}

func (d *deformatter) tag(s string) { d.tags[s] = true }

func (d *deformatter) eol(bits uint64) {
	if hit(bits, 40, d.st.trailWS) {
		d.b.WriteString(wsChoices[(bits>>32)%uint64(len(wsChoices))])
		d.tag("trailing-blanks")
	}
	if d.st.crlf {
		d.b.WriteString("\r\n")
	} else {
		d.b.WriteString("\n")
	}
	d.col0, d.prevCap, d.needNL, d.prevStr = true, false, false, ""
}

func (d *deformatter) indent(bits uint64, depth int) {
	if hit(bits, 48, d.st.indent) {
		d.b.WriteString(indentChoices[(bits>>56)%uint64(len(indentChoices))])
		d.tag("random-indent")
		return
	}
	for i := 0; i < depth; i++ {
		d.b.WriteString("    ")
	}
}

// lineBreak ends the current line (if anything is on it) and emits blank lines
// and inserted own-line comments.
func (d *deformatter) lineBreak(bits uint64, origBlank bool, depth int, beforeClose bool) {
	if !d.col0 {
		if hit(bits, 8, d.st.comment) {
			d.b.WriteString(wsChoices[(bits>>12)%uint64(len(wsChoices))])
			d.b.WriteString(insComments[(bits>>16)%uint64(len(insComments))])
			d.tag("inserted-trailing-comment")
		}
		d.eol(bits)
	}
	n := 0
	if origBlank {
		n = 1
	}
	if hit(bits, 24, d.st.blank) {
		n += 1 + int(bits>>20)%3
		d.tag("extra-blank-lines")
	}
	for i := 0; i < n; i++ {
		if i == 1 && hit(bits, 28, d.st.trailWS) {
			d.b.WriteString(" \t")
		}
		d.eol(0)
	}
	lvl := d.st.comment
	if beforeClose && lvl > 0 && lvl < 100 {
		lvl = 100
	}
	if hit(bits>>3, 8, lvl) {
		d.indent(bits>>5, depth)
		d.b.WriteString(insComments[(bits>>22)%uint64(len(insComments))])
		d.eol(bits >> 7)
		d.tag("inserted-own-line-comment")
		if beforeClose {
			d.tag("inserted-comment-before-close")
		}
		if hit(bits>>9, 24, d.st.blank) {
			d.eol(0)
		}
	}
}

func deformat(tt *rapid.T, elems []wElem, st wStyle) (string, []string) {
	d := &deformatter{tt: tt, st: st, tags: map[string]bool{}, col0: true}
	depth := 0
	if len(elems) > 0 {
		d.prevLn = elems[0].line
	}
	u64 := rapid.Uint64()
	// leading blank lines / comments
	if bits := u64.Draw(tt, "lead"); hit(bits, 0, st.blank) || hit(bits, 11, st.comment) {
		d.lineBreak(bits, hit(bits, 0, st.blank), 0, false)
	}
	for i, e := range elems {
		bits := u64.Draw(tt, "gap")
		origBreak := e.line != d.prevLn
		origBlank := e.line > d.prevLn+1
		d.prevLn = e.line
		switch e.kind {
		case 'C':
			if d.col0 {
				d.lineBreak(bits&^0xFF00, origBlank, depth, false) // (no trailing comment before a comment)
				d.indent(bits, depth)
			} else if (d.needNL || !d.prevCap) && (origBreak || hit(bits, 0, st.split)) {
				// own line (as in the original, or moved there)
				d.lineBreak(bits&^0xFF00, origBlank, depth, false)
				d.indent(bits, depth)
			} else {
				if hit(bits, 0, st.tight) {
					d.tag("comment-glued-to-token")
				} else if hit(bits, 16, st.wide) {
					d.b.WriteString(wsChoices[(bits>>24)%uint64(len(wsChoices))])
				} else {
					d.b.WriteString("  ")
				}
			}
			d.b.WriteString(e.s)
			if hit(bits, 32, st.trailWS) {
				d.b.WriteString("  ") // trailing spaces inside the comment text: the formatter strips them
				d.tag("comment-with-trailing-spaces")
			}
			d.eol(0)
		case 'S':
			if d.prevCap && !d.col0 && !hit(bits, 0, st.explSemi) {
				d.needNL, d.prevCap = true, false
				break
			}
			if hit(bits, 8, st.wide) {
				d.b.WriteString(wsChoices[(bits>>16)%uint64(len(wsChoices))])
			}
			d.b.WriteString(";")
			d.tag("explicit-semicolon")
			d.col0, d.prevCap, d.prevStr = false, false, ";"
		case 'T':
			closer := e.s == "}" || e.s == ")" || e.s == "]"
			dd := depth
			if closer {
				dd = max(0, depth-1)
			}
			brk := false
			switch {
			case d.col0:
				d.lineBreak(bits, origBlank, dd, e.s == "}")
				d.indent(bits, dd)
			case d.needNL:
				brk = true
			case origBreak:
				brk = d.prevCap || !hit(bits, 0, st.join)
				if !brk {
					d.tag("joined-lines")
				}
			default:
				if !d.prevCap && hit(bits, 0, st.split) {
					brk = true
					d.tag("split-line")
				} else if d.prevCap && hit(bits, 0, st.badSplit) {
					brk = true
					d.tag("bad-split")
				}
			}
			if d.prevStr == ";" && !brk && !d.col0 {
				d.tag("statements-joined-by-semicolon")
			}
			if brk {
				d.lineBreak(bits, origBlank, dd, e.s == "}")
				d.indent(bits, dd)
			} else if !d.col0 {
				switch {
				case hit(bits, 8, st.tight) && tightSafe(d.prevStr, e.s):
					d.tag("tight")
				case hit(bits, 16, st.wide):
					d.b.WriteString(wsChoices[(bits>>24)%uint64(len(wsChoices))])
					d.tag("wide")
				default:
					d.b.WriteString(" ")
				}
			}
			s := e.s
			if s[0] >= '0' && s[0] <= '9' && hit(bits, 32, st.num) {
				if r := respell(s, bits>>3|1<<62); r != s {
					s = r
					d.tag("number-respelled")
				}
			}
			d.b.WriteString(s)
			d.col0, d.prevCap, d.prevStr = false, e.capable, s
			switch e.s {
			case "(", "[", "{":
				depth++
			case ")", "]", "}":
				depth = max(0, depth-1)
			}
		}
		_ = i
	}
	// end of file
	bits := u64.Draw(tt, "eof")
	if d.needNL {
		d.lineBreak(bits, false, 0, false)
	} else if !d.col0 {
		if st.noFinalNL {
			d.tag("no-final-newline")
		} else {
			d.lineBreak(bits, false, 0, false)
		}
	}
	if d.col0 {
		if hit(bits, 32, st.comment) {
			d.b.WriteString(insComments[(bits>>40)%uint64(len(insComments))])
			d.tag("inserted-comment-at-eof")
			if !st.noFinalNL {
				d.eol(0)
			}
		} else if hit(bits, 48, st.blank) {
			d.eol(0)
			d.eol(0)
			d.tag("blank-lines-at-eof")
		}
	}
	if st.crlf {
		d.tag("crlf")
	}
	var tags []string
	for k := range d.tags {
		tags = append(tags, k)
	}
	sort.Strings(tags)
	return d.b.String(), tags
}

func genWuffsCase(tt *rapid.T) WuffsCase {
	wuffsOnce.Do(loadWuffs)
	var elems []wElem
	var origins []string
	kind := ir(0, 9).Draw(tt, "source")
	switch {
	case kind < 6: // std declarations
		n := ir(1, 3).Draw(tt, "nUnits")
		f := wuffsFiles[ir(0, len(wuffsFiles)-1).Draw(tt, "file")]
		at := ir(0, len(f)-1).Draw(tt, "decl")
		for k := 0; k < n && at+k < len(f); k++ {
			u := f[at+k]
			if len(elems) > 0 && len(elems)+len(u.elems) > 2500 {
				break
			}
			if len(u.elems) > 6000 {
				// a very long declaration: its head only would not parse, so take a neighbour
				continue
			}
			base := uint32(0)
			if len(elems) > 0 {
				base = elems[len(elems)-1].line + 2 - u.elems[0].line
			}
			for _, e := range u.elems {
				e.line += base
				elems = append(elems, e)
			}
			origins = append(origins, u.origin)
		}
		if len(elems) == 0 {
			u := wuffsSnips[0][0]
			elems, origins = u.elems, []string{u.origin}
		}
	case kind < 8: // hand-written snippets
		f := wuffsSnips[ir(0, len(wuffsSnips)-1).Draw(tt, "snippet")]
		for _, u := range f {
			elems = append(elems, u.elems...)
		}
		origins = []string{f[0].origin}
	default: // generated alignment blocks
		src := genBlocks(tt)
		us, err := unitsOf("blocks:", []byte(src))
		if err != nil {
			panic(fmt.Sprintf("C12: generated block source is not accepted: %v\n%s", err, src))
		}
		for _, u := range us {
			elems = append(elems, u.elems...)
		}
		origins = []string{"blocks:generated"}
	}
	text, tags := deformat(tt, elems, genStyle(tt))
	return WuffsCase{Src: text, Origin: strings.Join(origins, ","), Tags: tags}
}

var stdWholeOnce sync.Once

// TestPropWuffsfmt: rapid-generated de-formatted sources; the first call also
// checks every std file as it is.
func TestPropWuffsfmt(tt *testing.T) {
	stdWholeOnce.Do(func() {
		wuffsOnce.Do(loadWuffs)
		for _, p := range wuffsPaths {
			b, err := os.ReadFile(p)
			if err != nil || len(b) > maxWuffsLen {
				continue
			}
			rel, _ := filepath.Rel(ev.RepoRoot(), p)
			runWuffsCase(tt, WuffsCase{Src: string(b), Origin: "whole:" + rel})
		}
	})
	rapid.Check(tt, func(t *rapid.T) {
		runWuffsCase(t, genWuffsCase(t))
	})
}
