package c12

// Sub-check (b): lib/dumbindent.FormatBytes terminates, changes only leading
// and trailing blanks of lines (and leading/trailing blank lines), and is
// idempotent, for every lexically closed C-like text.
//
// FormatBytes runs in a worker subprocess (this very test binary, started
// with C12_WORKER=1): a livelocked call cannot be stopped from inside a Go
// process, and the known livelock grows its output at memory speed, so the
// worker measures its own heap ("counting work") and has a generous
// wall-clock watchdog; the parent kills and restarts it when necessary.

import (
	"bufio"
	"bytes"
	"encoding/binary"
	"fmt"
	"io"
	"io/fs"
	"os"
	"os/exec"
	"path/filepath"
	"runtime/metrics"
	"sort"
	"strings"
	"sync"
	"syscall"
	"testing"
	"time"
	"unicode/utf8"

	"github.com/google/wuffs/lib/dumbindent"
	"pgregory.net/rapid"

	"verif/internal/ev"
)

// DumbCase fully determines one dumbindent check.
type DumbCase struct {
	Src    string `json:"src"`               // the text (when valid UTF-8)
	SrcB64 []byte `json:"src_b64,omitempty"` // the text otherwise (takes precedence)
	Spaces int    `json:"spaces"`            // Options.Spaces (0 = default)
	Tabs   bool   `json:"tabs"`              // Options.Tabs
	Origin string `json:"origin,omitempty"`  // informational: "synthetic" or "file:first-line+lines"
}

func (c DumbCase) bytes() []byte {
	if len(c.SrcB64) > 0 {
		return c.SrcB64
	}
	return []byte(c.Src)
}

func (c *DumbCase) setSrc(b []byte) {
	if utf8.Valid(b) {
		c.Src, c.SrcB64 = string(b), nil
	} else {
		c.Src, c.SrcB64 = "", b
	}
}

const maxDumbLen = 64 << 10

var replayMode = false

// ---------------------------------------------------------------------------
// The lexical model documented by package dumbindent: "{ } ( ) \n, blanks that
// start or end a line, and strings, comments and preprocessor directives".
// scanText decides whether a text is in the property's domain (all string,
// character, raw-string and comment delimiters terminated) and measures the
// shape classes. It is line based like the documentation.

type features struct {
	multiComment   bool // a /* */ comment spanning >= 2 lines
	multiRaw       bool // a `raw` string spanning >= 2 lines
	braceInside    bool // { or } inside a string, char, raw string or comment
	afterMultiEnd  bool // a comment / raw string / string starts after the end of a multi-line token, same line
	afterMultiOpen bool // ... and that one is a /* or ` (the F1 shape)
	manyOnLine     bool // >= 3 string/comment/raw tokens on one line
	preprocCont    bool
	preproc        bool
	externNS       bool
	hanging        bool
	longBlankRun   bool // > 16 consecutive blank lines
	crlf           bool
	oddBlankEOL    bool // \f or \v next to a line end
	noFinalNewline bool
	ambiguous      string // non-empty: the C view and the line-based view disagree about closedness
	nLines         int
	nOpenBraces    int
}

func isBlank(b byte) bool { return b == ' ' || b == '\t' }

func trimBlanks(s []byte) []byte {
	for len(s) > 0 && isBlank(s[0]) {
		s = s[1:]
	}
	for len(s) > 0 && isBlank(s[len(s)-1]) {
		s = s[:len(s)-1]
	}
	return s
}

func lastNonBlank(s []byte) byte {
	for i := len(s) - 1; i >= 0; i-- {
		if !isBlank(s[i]) {
			return s[i]
		}
	}
	return 0
}

func hasBrace(s []byte) bool { return bytes.IndexByte(s, '{') >= 0 || bytes.IndexByte(s, '}') >= 0 }

const (
	stCode = iota
	stComment
	stRaw
)

// scanner carries the state from line to line.
type scanner struct {
	state    int
	preproc  bool // the previous non-blank line was a preprocessor line ending in a backslash
	unclosed bool // a string or char literal was not terminated on its line
	f        features
	multiEnd bool // scratch: a multi-line token ended on the current line
	nTok     int  // scratch: string/comment/raw tokens on the current line
	blankRun int
}

// cookedEnd returns the index just after the closing quote, or -1.
func cookedEnd(s []byte, quote byte) int {
	for i := 0; i < len(s); {
		switch {
		case s[i] == quote:
			return i + 1
		case s[i] != '\\':
			i++
		case i+1 < len(s):
			i += 2
		default:
			return -1
		}
	}
	return -1
}

func (sc *scanner) startToken(opener bool) {
	sc.nTok++
	if sc.nTok >= 3 {
		sc.f.manyOnLine = true
	}
	if sc.multiEnd {
		sc.f.afterMultiEnd = true
		if opener {
			sc.f.afterMultiOpen = true
		}
	}
}

// code scans s (the part of a line that is in code state).
func (sc *scanner) code(s []byte) {
	for i := 0; i < len(s); i++ {
		switch s[i] {
		case '/':
			if i+1 >= len(s) {
				continue
			}
			if s[i+1] == '/' {
				sc.startToken(false)
				if hasBrace(s[i:]) {
					sc.f.braceInside = true
				}
				if lastNonBlank(s) == '\\' {
					sc.f.ambiguous = "backslash-newline ends a // comment"
				}
				return
			}
			if s[i+1] == '*' {
				sc.startToken(true)
				rest := s[i+2:]
				j := bytes.Index(rest, []byte("*/"))
				if j < 0 {
					if hasBrace(rest) {
						sc.f.braceInside = true
					}
					sc.state = stComment
					return
				}
				if hasBrace(rest[:j]) {
					sc.f.braceInside = true
				}
				i += 2 + j + 1
			}
		case '"', '\'':
			sc.startToken(false)
			j := cookedEnd(s[i+1:], s[i])
			if j < 0 {
				sc.unclosed = true
				return
			}
			if hasBrace(s[i+1 : i+1+j]) {
				sc.f.braceInside = true
			}
			i += j
		case '`':
			sc.startToken(true)
			rest := s[i+1:]
			j := bytes.IndexByte(rest, '`')
			if j < 0 {
				if hasBrace(rest) {
					sc.f.braceInside = true
				}
				sc.state = stRaw
				return
			}
			if hasBrace(rest[:j]) {
				sc.f.braceInside = true
			}
			i += 1 + j
		case '{':
			sc.f.nOpenBraces++
		}
	}
}

// preprocLine looks at a preprocessor line with C's eyes: a /* left open, or an
// unbalanced quote, makes the text's closedness a matter of opinion.
func (sc *scanner) preprocLine(s []byte) {
	for i := 0; i < len(s); i++ {
		switch s[i] {
		case '/':
			if i+1 < len(s) && s[i+1] == '/' {
				if lastNonBlank(s) == '\\' {
					sc.f.ambiguous = "backslash-newline ends a // comment"
				}
				return
			}
			if i+1 < len(s) && s[i+1] == '*' {
				j := bytes.Index(s[i+2:], []byte("*/"))
				if j < 0 {
					sc.f.ambiguous = "/* left open on a preprocessor line"
					return
				}
				i += 2 + j + 1
			}
		case '"', '\'':
			j := cookedEnd(s[i+1:], s[i])
			if j < 0 {
				sc.f.ambiguous = "unbalanced quote on a preprocessor line"
				return
			}
			i += j
		case '`':
			j := bytes.IndexByte(s[i+1:], '`')
			if j < 0 {
				sc.f.ambiguous = "unbalanced back-tick on a preprocessor line"
				return
			}
			i += 1 + j
		}
	}
}

// line consumes one line (without its '\n').
func (sc *scanner) line(l []byte) {
	sc.f.nLines++
	sc.multiEnd, sc.nTok = false, 0
	if n := len(l); n > 0 {
		if l[n-1] == '\r' {
			sc.f.crlf = true
		}
		if l[n-1] == '\f' || l[n-1] == '\v' || l[0] == '\f' || l[0] == '\v' {
			sc.f.oddBlankEOL = true
		}
	}
	switch sc.state {
	case stComment:
		j := bytes.Index(l, []byte("*/"))
		if j < 0 {
			if hasBrace(l) {
				sc.f.braceInside = true
			}
			return
		}
		if hasBrace(l[:j]) {
			sc.f.braceInside = true
		}
		sc.f.multiComment = true
		sc.state, sc.multiEnd = stCode, true
		sc.code(l[j+2:])
		sc.endCodeLine(l)
		return
	case stRaw:
		j := bytes.IndexByte(l, '`')
		if j < 0 {
			if hasBrace(l) {
				sc.f.braceInside = true
			}
			return
		}
		if hasBrace(l[:j]) {
			sc.f.braceInside = true
		}
		sc.f.multiRaw = true
		sc.state, sc.multiEnd = stCode, true
		sc.code(l[j+1:])
		sc.endCodeLine(l)
		return
	}
	t := trimBlanks(l)
	if len(t) == 0 {
		sc.blankRun++
		if sc.blankRun > 16 {
			sc.f.longBlankRun = true
		}
		if sc.preproc {
			sc.f.ambiguous = "blank line after a backslash-continued preprocessor line"
		}
		return
	}
	sc.blankRun = 0
	if sc.preproc || t[0] == '#' {
		sc.f.preproc = true
		sc.preprocLine(t)
		sc.preproc = lastNonBlank(t) == '\\'
		if sc.preproc {
			sc.f.preprocCont = true
		}
		return
	}
	if (bytes.HasPrefix(t, []byte("extern ")) || bytes.HasPrefix(t, []byte("namespace "))) && bytes.IndexByte(t, '{') >= 0 {
		sc.f.externNS = true
	}
	sc.code(t)
	sc.endCodeLine(t)
}

func (sc *scanner) endCodeLine(l []byte) {
	if sc.state != stCode {
		return
	}
	if c := lastNonBlank(l); c == '=' || c == '\\' {
		sc.f.hanging = true
	}
}

func splitLines(src []byte) [][]byte {
	lines := bytes.Split(src, []byte("\n"))
	return lines
}

func scanText(src []byte) (f features, closed bool) {
	sc := &scanner{}
	lines := splitLines(src)
	for i, l := range lines {
		if i == len(lines)-1 && len(l) == 0 {
			break // the text ended with '\n'
		}
		sc.line(l)
	}
	if len(src) > 0 && src[len(src)-1] != '\n' {
		sc.f.noFinalNewline = true
	}
	return sc.f, sc.state == stCode && !sc.unclosed
}

// norm is the property's normal form: each line without its leading and
// trailing blanks (space, tab: the only bytes dumbindent calls white space),
// without leading and trailing blank lines (DESIGN section 6.1).
func norm(src []byte) [][]byte {
	lines := splitLines(src)
	for i := range lines {
		lines[i] = trimBlanks(lines[i])
	}
	for len(lines) > 0 && len(lines[len(lines)-1]) == 0 {
		lines = lines[:len(lines)-1]
	}
	for len(lines) > 0 && len(lines[0]) == 0 {
		lines = lines[1:]
	}
	return lines
}

func diffNorm(in, out []byte) string {
	a, b := norm(in), norm(out)
	for i := 0; i < len(a) || i < len(b); i++ {
		var x, y []byte
		if i < len(a) {
			x = a[i]
		}
		if i < len(b) {
			y = b[i]
		}
		if i >= len(a) || i >= len(b) || !bytes.Equal(x, y) {
			return fmt.Sprintf("normal forms differ at line %d of %d/%d: input %q, output %q", i+1, len(a), len(b), clip(x), clip(y))
		}
	}
	return ""
}

func clip(b []byte) string {
	if len(b) > 200 {
		return string(b[:200]) + "…"
	}
	return string(b)
}

// ---------------------------------------------------------------------------
// Worker subprocess.

const (
	wOK = iota
	wPanic
	wGrowth
	wTimeout
	wDied
)

func TestC12Worker(t *testing.T) {
	if os.Getenv("C12_WORKER") == "" {
		t.Skip("helper process only")
	}
	workerMain()
}

var allocSample = []metrics.Sample{{Name: "/gc/heap/allocs:bytes"}}

// allocatedBytes is the cumulative number of heap bytes allocated so far (it
// never decreases: a garbage collection cannot hide work).
func allocatedBytes() uint64 {
	metrics.Read(allocSample)
	return allocSample[0].Value.Uint64()
}

// Worker protocol, over two blocking pipes (fd 3: requests, fd 4: responses).
//
//	request:  len u32, spaces i32, tabs u8, timeout-ms u32, alloc-limit u64, src
//	response: status u8, stage u8 (1 format, 2 re-format), same u8, len1 u32, len2 u32, out1, extra
//
// The worker computes out1 = FormatBytes(nil, src) and out2 = FormatBytes(nil,
// out1); extra is out2 when it differs from out1 (same = 0), or the panic
// message. A watchdog goroutine answers in the main goroutine's place, and
// ends the process, when a call allocates more than the limit or exceeds the
// time-out.
var (
	wdMu      sync.Mutex
	wdStart   time.Time // zero: idle
	wdAlloc0  uint64
	wdLimit   uint64
	wdTimeout time.Duration
	wdStage   byte
	wdOut     *os.File
)

func respond(st, stage, same byte, out1, extra []byte) {
	hdr := make([]byte, 11, 11+len(out1)+len(extra))
	hdr[0], hdr[1], hdr[2] = st, stage, same
	binary.LittleEndian.PutUint32(hdr[3:], uint32(len(out1)))
	binary.LittleEndian.PutUint32(hdr[7:], uint32(len(extra)))
	wdOut.Write(append(append(hdr, out1...), extra...))
}

func watchdog() {
	for {
		time.Sleep(3 * time.Millisecond)
		wdMu.Lock()
		if !wdStart.IsZero() {
			if a := allocatedBytes(); a-wdAlloc0 > wdLimit {
				fmt.Fprintf(os.Stderr, "C12 worker: %d KiB allocated in %v\n", (a-wdAlloc0)>>10, time.Since(wdStart).Round(time.Millisecond))
				respond(wGrowth, wdStage, 0, nil, nil)
				os.Exit(0)
			}
			if time.Since(wdStart) > wdTimeout {
				respond(wTimeout, wdStage, 0, nil, []byte(fmt.Sprintf("no result after %v", wdTimeout)))
				os.Exit(0)
			}
		}
		wdMu.Unlock()
	}
}

func workerMain() {
	in := os.NewFile(3, "req")
	wdOut = os.NewFile(4, "resp")
	br := bufio.NewReaderSize(in, 1<<16)
	go watchdog()
	call := func(stage byte, src []byte, opts *dumbindent.Options) (out []byte, pmsg string) {
		wdMu.Lock()
		wdStart, wdAlloc0, wdStage = time.Now(), allocatedBytes(), stage
		wdMu.Unlock()
		defer func() {
			if e := recover(); e != nil {
				pmsg = fmt.Sprintf("panic: %v", e)
			}
			wdMu.Lock() // (blocks for ever if the watchdog is answering right now)
			wdStart = time.Time{}
			wdMu.Unlock()
		}()
		return dumbindent.FormatBytes(nil, src, opts), ""
	}
	for {
		hdr := make([]byte, 21)
		if _, err := io.ReadFull(br, hdr); err != nil {
			os.Exit(0)
		}
		n := binary.LittleEndian.Uint32(hdr[0:])
		opts := &dumbindent.Options{Spaces: int(int32(binary.LittleEndian.Uint32(hdr[4:]))), Tabs: hdr[8] != 0}
		wdMu.Lock()
		wdTimeout = time.Duration(binary.LittleEndian.Uint32(hdr[9:])) * time.Millisecond
		wdLimit = binary.LittleEndian.Uint64(hdr[13:])
		wdMu.Unlock()
		src := make([]byte, n)
		if _, err := io.ReadFull(br, src); err != nil {
			os.Exit(0)
		}
		out1, pmsg := call(1, src, opts)
		if pmsg != "" {
			respond(wPanic, 1, 0, nil, []byte(pmsg))
			continue
		}
		out2, pmsg := call(2, out1, opts)
		switch {
		case pmsg != "":
			respond(wPanic, 2, 0, out1, []byte(pmsg))
		case bytes.Equal(out1, out2):
			respond(wOK, 2, 1, out1, nil)
		default:
			respond(wOK, 2, 0, out1, out2)
		}
	}
}

type worker struct {
	cmd  *exec.Cmd
	req  *os.File
	resp *bufio.Reader
	rf   *os.File
}

var (
	workerMu  sync.Mutex
	theWorker *worker
)

// blockingPipe returns a pipe whose ends do blocking I/O (os.Pipe's ends go
// through the runtime poller, which costs several wake-ups per message).
func blockingPipe() (r, w *os.File, err error) {
	var p [2]int
	if err := syscall.Pipe2(p[:], syscall.O_CLOEXEC); err != nil {
		return nil, nil, err
	}
	return os.NewFile(uintptr(p[0]), "|0"), os.NewFile(uintptr(p[1]), "|1"), nil
}

func startWorker() (*worker, error) {
	exe, err := os.Executable()
	if err != nil {
		return nil, err
	}
	reqR, reqW, err := blockingPipe()
	if err != nil {
		return nil, err
	}
	respR, respW, err := blockingPipe()
	if err != nil {
		return nil, err
	}
	cmd := exec.Command(exe, "-test.run=^TestC12Worker$", "-test.timeout=0", "-test.count=1")
	cmd.Env = append(os.Environ(), "C12_WORKER=1", "VERIF_STATS=", "VERIF_OUT=", "VERIF_REPLAY=", "GOMAXPROCS=2")
	cmd.ExtraFiles = []*os.File{reqR, respW}
	cmd.Stdout, cmd.Stderr = nil, os.Stderr
	if err := cmd.Start(); err != nil {
		return nil, err
	}
	reqR.Close()
	respW.Close()
	return &worker{cmd: cmd, req: reqW, resp: bufio.NewReaderSize(respR, 1<<16), rf: respR}, nil
}

func (w *worker) stop() {
	w.req.Close()
	w.cmd.Process.Kill()
	w.cmd.Wait()
	w.rf.Close()
}

type workerResult struct {
	st    int
	stage int    // 1: the first call, 2: the call on the first call's output
	out1  []byte // valid when stage == 2
	same  bool   // the second output equals the first
	out2  []byte // when !same
	msg   string
}

// formatInWorker runs FormatBytes twice (on src, then on its own output) in
// the worker process.
func formatInWorker(src []byte, spaces int, tabs bool, timeout time.Duration, allocLimit uint64) (r workerResult) {
	workerMu.Lock()
	defer workerMu.Unlock()
	if theWorker == nil {
		w, err := startWorker()
		if err != nil {
			panic("C12: cannot start the worker process: " + err.Error())
		}
		theWorker = w
	}
	w := theWorker
	hdr := make([]byte, 21, 21+len(src))
	binary.LittleEndian.PutUint32(hdr[0:], uint32(len(src)))
	binary.LittleEndian.PutUint32(hdr[4:], uint32(int32(spaces)))
	if tabs {
		hdr[8] = 1
	}
	binary.LittleEndian.PutUint32(hdr[9:], uint32(timeout/time.Millisecond))
	binary.LittleEndian.PutUint64(hdr[13:], allocLimit)
	guard := time.AfterFunc(2*timeout+15*time.Second, func() { w.cmd.Process.Kill() })
	defer guard.Stop()
	fail := func(why string) workerResult {
		w.stop()
		theWorker = nil
		return workerResult{st: wDied, stage: 1, msg: why}
	}
	if _, err := w.req.Write(append(hdr, src...)); err != nil {
		return fail("the worker process died (write)")
	}
	rh := make([]byte, 11)
	if _, err := io.ReadFull(w.resp, rh); err != nil {
		return fail("the worker process died, or was killed by the outer watchdog")
	}
	out1 := make([]byte, binary.LittleEndian.Uint32(rh[3:]))
	extra := make([]byte, binary.LittleEndian.Uint32(rh[7:]))
	if _, err := io.ReadFull(w.resp, out1); err != nil {
		return fail("the worker process died (payload)")
	}
	if _, err := io.ReadFull(w.resp, extra); err != nil {
		return fail("the worker process died (payload)")
	}
	r = workerResult{st: int(rh[0]), stage: int(rh[1]), same: rh[2] != 0, out1: out1}
	switch r.st {
	case wOK:
		r.out2 = extra
	case wGrowth, wTimeout:
		w.stop()
		theWorker = nil
		r.msg = string(extra)
	default:
		r.msg = string(extra)
	}
	return r
}

// ---------------------------------------------------------------------------
// Oracle.

func checkDumb(c DumbCase) (msg string, nontrivial bool, classes []string) {
	src := c.bytes()
	if len(src) > maxDumbLen {
		return "", false, []string{"dumb/skip:too-long"}
	}
	f, closed := scanText(src)
	kind := "synthetic"
	if strings.HasPrefix(c.Origin, "file:") {
		kind = "real-file-slice"
	} else if strings.HasPrefix(c.Origin, "mixed:") {
		kind = "real-slice+synthetic-lines"
	}
	if !closed {
		return "", false, []string{"dumb/skip:not-lexically-closed:" + kind}
	}
	if f.ambiguous != "" {
		return "", false, []string{"dumb/skip:ambiguous-closedness:" + kind + ":" + f.ambiguous}
	}
	if i := bytes.IndexByte(src, '\n'); len(trimBlanks(src)) == 0 || (i >= 0 && len(trimBlanks(src[:i])) == 0) {
		return "", false, []string{"dumb/skip:leading-blank-line"}
	}
	if c.Spaces < 0 || c.Spaces > 64 {
		return "", false, []string{"dumb/skip:spaces-out-of-range"}
	}
	// The largest output any correct run can produce: every line indented by
	// the first line's blanks plus (number of '{' + 2) levels.
	per := c.Spaces
	if c.Tabs {
		per = 1
	} else if per <= 0 {
		per = 2
	}
	first := 0
	for first < len(src) && isBlank(src[first]) {
		first++
	}
	bound := uint64(len(src)) + uint64(f.nLines+1)*uint64(first+per*(f.nOpenBraces+2)+1) + 1024
	if bound > 32<<20 {
		return "", false, []string{"dumb/skip:output-bound-too-large"}
	}
	heapLimit := uint64(2<<20) + 8*bound
	timeout := 20 * time.Second
	if replayMode {
		timeout = 60 * time.Second
	}

	r := formatInWorker(src, c.Spaces, c.Tabs, timeout, heapLimit)
	what := "format"
	if r.stage == 2 {
		what = "re-format (FormatBytes on its own output)"
	}
	switch r.st {
	case wOK:
	case wPanic:
		return what + ": FormatBytes " + r.msg, false, nil
	case wGrowth:
		return fmt.Sprintf("%s: FormatBytes does not terminate: unbounded output growth (more than %d bytes allocated; a correct run outputs at most %d bytes)", what, heapLimit, bound), false, nil
	case wTimeout:
		return what + ": FormatBytes does not terminate: " + r.msg, false, nil
	default:
		return what + ": FormatBytes: " + r.msg, false, nil
	}
	out1 := r.out1
	if uint64(len(out1)) > bound {
		return fmt.Sprintf("output of %d bytes for %d input bytes exceeds the largest possible indentation (%d)", len(out1), len(src), bound), false, nil
	}
	if d := diffNorm(src, out1); d != "" {
		return "output is not the input modulo line-leading/trailing blanks: " + d, false, nil
	}
	if !r.same {
		out2 := r.out2
		i := 0
		for i < len(out1) && i < len(out2) && out1[i] == out2[i] {
			i++
		}
		lo := max(0, i-40)
		return fmt.Sprintf("not idempotent: outputs of length %d and %d differ at byte %d: first %q, second %q", len(out1), len(out2), i,
			clip(out1[lo:min(len(out1), i+40)]), clip(out2[lo:min(len(out2), i+40)])), false, nil
	}

	add := func(b bool, name string) {
		if b {
			classes = append(classes, "dumb/"+name)
		}
	}
	classes = append(classes, "dumb/origin:"+kind)
	if c.Tabs {
		classes = append(classes, "dumb/opt:tabs")
	} else {
		classes = append(classes, fmt.Sprintf("dumb/opt:spaces-%d", c.Spaces))
	}
	add(first > 0, "first-line-indented")
	add(f.multiComment, "multi-line-comment")
	add(f.multiRaw, "multi-line-raw-string")
	add(f.braceInside, "brace-inside-string-or-comment")
	add(f.afterMultiEnd, "token-after-multi-line-end")
	add(f.afterMultiOpen, "comment-or-raw-opens-after-multi-line-end")
	add(f.manyOnLine, "three-or-more-tokens-on-a-line")
	add(f.preproc, "preprocessor-line")
	add(f.preprocCont, "preprocessor-continuation")
	add(f.externNS, "extern-or-namespace-brace")
	add(f.hanging, "hanging-line")
	add(f.longBlankRun, "blank-run-over-16")
	add(f.crlf, "cr-before-lf")
	add(f.oddBlankEOL, "ff-or-vt-at-line-edge")
	add(f.noFinalNewline, "no-final-newline")
	add(!bytes.Equal(out1, src), "output-differs-from-input")
	nontrivial = (f.multiComment || f.multiRaw) && f.braceInside
	return "", nontrivial, classes
}

func runDumbCase(t fataler, c DumbCase) {
	ev.Eval()
	msg, nt, classes := func() (msg string, nt bool, cl []string) {
		defer func() {
			if r := recover(); r != nil {
				msg = fmt.Sprintf("panic in the check: %v", r)
			}
		}()
		return checkDumb(c)
	}()
	if msg != "" {
		ev.Fail("C12", "dumbindent", c, msg)
		t.Fatalf("C12 violated (dumbindent): %s\noptions: spaces=%d tabs=%v origin=%s\ntext: %q", msg, c.Spaces, c.Tabs, c.Origin, clip(c.bytes()))
	}
	for _, cl := range classes {
		ev.Class(cl)
	}
	if nt {
		ev.Nontrivial(ev.Hash("dumb", c.bytes(), c.Spaces, c.Tabs), func() any {
			s := c
			if len(s.Src) > 600 {
				s.Src = s.Src[:600] + "…(cut)"
			}
			if len(s.SrcB64) > 600 {
				s.SrcB64 = s.SrcB64[:600]
			}
			return s
		})
	}
}

// ---------------------------------------------------------------------------
// Generator: synthetic texts from a token grammar.

var (
	cWords = []string{"x", "foo", "int", "if", "for", "return", "static", "uint8_t", "a1", "else", "while",
		"do", "struct", "0", "42", "0x1F", "1.5e3", "wuffs_base__status", "goto", "exit", "externx", "namespaces"}
	cPuncts = []string{";", ";", ",", "=", "==", "+", "-", "*", "/", "<", ">", "->", ".", ":", "?", "[", "]", "&", "&&",
		"|", "!", "%", "^", "~", "\\", "<<=", "::", "...", "@", "$"}
	cBraces = []string{"{", "}", "(", ")", "{", "}", "(", ")", "{{", "}}", "((", "))", "){", "}(", "{}", "()"}

	sepChoices = []string{"", " ", " ", " ", "  ", "\t", " \t"}

	leadChoices  = []string{"", "", "", " ", "  ", "    ", "\t", "\t\t", " \t", "\t ", "       ", "          ", "\t\t\t\t"}
	trailChoices = []string{"", "", "", "", " ", "\t", "  \t", " \t ", "\r", " \r", "\f", "\v", "\f ", " \f", "\x00", "\r\r"}
	oddLead      = []string{"\f", "\v", "\r", "\f ", " \v"}

	cookedCommon = []string{"a", "b c", " ", "{", "}", "(", ")", "{{", "/*", "*/", "//", "`", "#", "=", "\\\\", "\\n", "\\x7B",
		"\\t", "\t", "é", "%d", "\\0", "\\\\\\\\", "*", "/", "\\a", "  "}
	commentCommon = []string{"a", "word", " ", "  ", "{", "}", "(", ")", "\"", "'", "`", "//", "/*", "*", "/", "#", "\\", "\t",
		"=", "don't", "é→", "\"{", "}'", "TODO(x): y", "**", "\\\"", "#if", "extern \"C\" {", "``"}
	multiBreaks = []string{"\n", "\n", "\n ", "\n\t* ", "\n\n", " \n", "\t\n\t", "\n#", "\n}", "\n * ", "\n\n\n", "\r\n", "\n//", "\n\"", "\n  {"}
)

// ir is rapid.IntRange with the generator objects cached (a generator is
// immutable; creating one per draw dominated the generation cost).
var irCache = map[[2]int]*rapid.Generator[int]{}

func ir(lo, hi int) *rapid.Generator[int] {
	k := [2]int{lo, hi}
	irMu.Lock()
	g := irCache[k]
	if g == nil {
		g = rapid.IntRange(lo, hi)
		irCache[k] = g
	}
	irMu.Unlock()
	return g
}

var irMu sync.Mutex

func pick(t *rapid.T, label string, xs []string) string {
	return xs[ir(0, len(xs)-1).Draw(t, label)]
}

func genCooked(t *rapid.T, q byte) string {
	other := byte('"')
	if q == '"' {
		other = '\''
	}
	n := ir(0, 6).Draw(t, "cookedLen")
	var b strings.Builder
	b.WriteByte(q)
	for i := 0; i < n; i++ {
		k := ir(0, len(cookedCommon)+3).Draw(t, "cookedElem")
		switch {
		case k < len(cookedCommon):
			b.WriteString(cookedCommon[k])
		case k == len(cookedCommon):
			b.WriteByte(other)
		case k == len(cookedCommon)+1:
			b.WriteByte('\\')
			b.WriteByte(other)
		default: // the escaped quote itself, twice as likely
			b.WriteByte('\\')
			b.WriteByte(q)
		}
	}
	b.WriteByte(q)
	return b.String()
}

// genInner generates the inside of a comment or raw string.
func genInner(t *rapid.T, multi bool, raw bool) string {
	n := ir(0, 7).Draw(t, "innerLen")
	var b strings.Builder
	breaks := 0
	for i := 0; i < n; i++ {
		if multi && ir(0, 3).Draw(t, "innerBreak") == 0 {
			b.WriteString(pick(t, "break", multiBreaks))
			breaks++
			continue
		}
		s := pick(t, "innerElem", commentCommon)
		if raw && ir(0, 9).Draw(t, "rawStarSlash") == 0 {
			s = "*/"
		}
		b.WriteString(s)
	}
	if multi && breaks == 0 {
		b.WriteString(pick(t, "break", multiBreaks))
	}
	s := b.String()
	if raw {
		s = strings.ReplaceAll(s, "`", "'")
	} else {
		s = strings.ReplaceAll(s, "*/", "* /")
	}
	return s
}

func genBlockComment(t *rapid.T, multi bool) string { return "/*" + genInner(t, multi, false) + "*/" }
func genRaw(t *rapid.T, multi bool) string          { return "`" + genInner(t, multi, true) + "`" }

func genLineComment(t *rapid.T) string {
	n := ir(0, 5).Draw(t, "lcLen")
	var b strings.Builder
	b.WriteString("//")
	for i := 0; i < n; i++ {
		b.WriteString(pick(t, "lcElem", commentCommon))
	}
	s := b.String()
	// C continues a // comment over backslash-newline; stay out of that corner.
	for lastNonBlank([]byte(s)) == '\\' {
		s = strings.TrimRight(s, " \t")
		s = s[:len(s)-1] + "|"
	}
	return s
}

// genPiece returns one code piece; allowMulti permits embedded newlines.
func genPiece(t *rapid.T, allowMulti bool) string {
	k := ir(0, 99).Draw(t, "piece")
	switch {
	case k < 22:
		return pick(t, "word", cWords)
	case k < 40:
		return pick(t, "punct", cPuncts)
	case k < 58:
		return pick(t, "brace", cBraces)
	case k < 68:
		return genCooked(t, '"')
	case k < 73:
		return genCooked(t, '\'')
	case k < 80:
		return genBlockComment(t, false)
	case k < 90:
		return genBlockComment(t, allowMulti)
	case k < 94:
		return genRaw(t, false)
	default:
		return genRaw(t, allowMulti)
	}
}

// joinPieces concatenates pieces with random separators, never creating an
// accidental comment opener across two pieces.
func joinPieces(t *rapid.T, ps []string) string {
	var b strings.Builder
	for i, p := range ps {
		if i > 0 {
			sep := pick(t, "sep", sepChoices)
			prev := ps[i-1]
			if sep == "" && prev != "" && p != "" && prev[len(prev)-1] == '/' && (p[0] == '/' || p[0] == '*') {
				sep = " "
			}
			b.WriteString(sep)
		}
		b.WriteString(p)
	}
	return b.String()
}

// genCodeLine returns one logical code line (it contains '\n' when a
// multi-line comment or raw string is embedded), without the final '\n'.
func genCodeLine(t *rapid.T, mustBeNonBlank bool) string {
	n := ir(0, 7).Draw(t, "nPieces")
	if mustBeNonBlank && n == 0 {
		n = 1
	}
	var ps []string
	switch ir(0, 19).Draw(t, "lineStart") {
	case 0:
		ps = append(ps, "extern \"C\"", "{")
	case 1:
		ps = append(ps, "namespace", pick(t, "word", cWords), "{")
	case 2:
		ps = append(ps, pick(t, "closers", []string{"}", "}}", "})", "} }", "};", "} else {"}))
	}
	for i := 0; i < n; i++ {
		ps = append(ps, genPiece(t, true))
	}
	switch ir(0, 11).Draw(t, "lineEnd") {
	case 0:
		ps = append(ps, "=")
	case 1:
		ps = append(ps, "\\")
	case 2, 3:
		ps = append(ps, genLineComment(t))
	}
	s := joinPieces(t, ps)
	if len(s) > 0 && s[0] == '#' {
		s = "x" + s
	}
	return s
}

func genPreprocLines(t *rapid.T) []string {
	var out []string
	dir := pick(t, "directive", []string{"#define X", "#if", "#ifdef A", "#endif", "#include <a.h>", "# pragma once", "#error {", "#define F(a,b) \\", "#", "#else"})
	nCont := 0
	if ir(0, 2).Draw(t, "cont") == 0 {
		nCont = ir(1, 3).Draw(t, "nCont")
	}
	for i := 0; i <= nCont; i++ {
		n := ir(0, 4).Draw(t, "ppPieces")
		var ps []string
		if i == 0 {
			ps = append(ps, dir)
		}
		for j := 0; j < n; j++ {
			ps = append(ps, genPiece(t, false))
		}
		// (C continues a // comment over backslash-newline: only the last line gets one.)
		if i == nCont && ir(0, 5).Draw(t, "ppLineComment") == 0 {
			ps = append(ps, genLineComment(t))
		}
		s := joinPieces(t, ps)
		// A directive's own text never ends in a backslash by accident.
		for lastNonBlank([]byte(s)) == '\\' {
			s = strings.TrimRight(s, " \t")
			s = s[:len(s)-1]
		}
		if i < nCont {
			s += pick(t, "contMark", []string{" \\", "\\", "\t\\", " \\ ", " \\\t"})
		} else if strings.TrimSpace(s) == "" {
			s = "x"
		}
		if i > 0 && strings.TrimLeft(s, " \t") == "" {
			s = "y" + s
		}
		out = append(out, s)
	}
	return out
}

// genSyntheticLines returns physical-line groups; the first is never blank.
func genSyntheticLines(t *rapid.T, maxGroups int, first bool) []string {
	var lines []string
	n := ir(1, maxGroups).Draw(t, "nGroups")
	for g := 0; g < n; g++ {
		mustNonBlank := first && g == 0
		k := ir(0, 99).Draw(t, "group")
		lead := ""
		if !mustNonBlank {
			lead = pick(t, "lead", leadChoices)
		}
		trail := pick(t, "trail", trailChoices)
		switch {
		case k < 70 || (mustNonBlank && k >= 84):
			s := genCodeLine(t, mustNonBlank)
			if s != "" && ir(0, 29).Draw(t, "oddLead") == 0 && !mustNonBlank {
				lead += pick(t, "oddLeadByte", oddLead)
			}
			lines = append(lines, lead+s+trail)
		case k < 84:
			for _, s := range genPreprocLines(t) {
				lines = append(lines, lead+s+trail)
			}
		case k < 97:
			nb := ir(1, 3).Draw(t, "nBlank")
			for i := 0; i < nb; i++ {
				lines = append(lines, pick(t, "blankLine", []string{"", "", " ", "\t", "  \t "}))
			}
		default:
			nb := ir(15, 40).Draw(t, "nBlankLong")
			for i := 0; i < nb; i++ {
				lines = append(lines, "")
			}
		}
	}
	// A blank line directly after a backslash-continued directive would make
	// closedness ambiguous (see scanner); preprocessor groups end without a
	// backslash, so this cannot happen by construction.
	return lines
}

func finishText(t *rapid.T, lines []string) []byte {
	s := strings.Join(lines, "\n")
	switch ir(0, 5).Draw(t, "eof") {
	case 0: // no final newline
	case 1:
		s += "\n\n \n"
	default:
		s += "\n"
	}
	return []byte(s)
}

// ---------------------------------------------------------------------------
// Generator: slices of the repository's real C files.

type cFile struct {
	rel   string
	lines [][]byte
	ok    []bool // a slice may start/end before line i: code state, no pending directive
}

var (
	cFilesOnce sync.Once
	cFiles     []*cFile
)

func loadCFiles() {
	root := ev.RepoRoot()
	var paths []string
	filepath.WalkDir(root, func(p string, d fs.DirEntry, err error) error {
		if err != nil {
			return nil
		}
		if d.IsDir() {
			if d.Name() == ".git" {
				return filepath.SkipDir
			}
			return nil
		}
		switch filepath.Ext(p) {
		case ".c", ".h", ".cc":
			paths = append(paths, p)
		}
		return nil
	})
	sort.Strings(paths)
	for _, p := range paths {
		b, err := os.ReadFile(p)
		if err != nil || len(b) == 0 {
			continue
		}
		rel, _ := filepath.Rel(root, p)
		f := &cFile{rel: rel, lines: splitLines(b)}
		if n := len(f.lines); n > 0 && len(f.lines[n-1]) == 0 {
			f.lines = f.lines[:n-1]
		}
		sc := &scanner{}
		f.ok = make([]bool, len(f.lines)+1)
		for i, l := range f.lines {
			f.ok[i] = sc.state == stCode && !sc.preproc
			sc.line(l)
		}
		f.ok[len(f.lines)] = sc.state == stCode
		cFiles = append(cFiles, f)
	}
	if len(cFiles) == 0 {
		panic("C12: no C files found under " + root)
	}
}

// genRealSlice picks a lexically closed line range of a real file.
func genRealSlice(t *rapid.T) (lines []string, origin string, splice []int) {
	cFilesOnce.Do(loadCFiles)
	f := cFiles[ir(0, len(cFiles)-1).Draw(t, "cFile")]
	n := len(f.lines)
	start := ir(0, n-1).Draw(t, "startLine")
	// move forward to a line where a slice may start and which is not blank
	for start < n && !(f.ok[start] && len(trimBlanks(f.lines[start])) > 0) {
		start++
	}
	if start >= n {
		start = 0
		for start < n && !(f.ok[start] && len(trimBlanks(f.lines[start])) > 0) {
			start++
		}
		if start >= n {
			return []string{"x"}, "file:" + f.rel + ":degenerate", nil
		}
	}
	want := ir(1, 400).Draw(t, "nLines")
	if ir(0, 9).Draw(t, "long") == 0 {
		want = ir(400, 1500).Draw(t, "nLinesLong")
	}
	end := min(n, start+want)
	for end < n && !f.ok[end] {
		end++
	}
	size := 0
	for i := start; i < end; i++ {
		size += len(f.lines[i]) + 1
		if size > maxDumbLen-4096 {
			// cut at the last permitted boundary before i
			j := i
			for j > start+1 && !f.ok[j] {
				j--
			}
			end = j
			break
		}
	}
	for i := start; i < end; i++ {
		lines = append(lines, string(f.lines[i]))
		if i > start && f.ok[i] {
			splice = append(splice, i-start)
		}
	}
	return lines, fmt.Sprintf("file:%s:%d+%d", f.rel, start+1, end-start), splice
}

func genDumbCase(t *rapid.T) DumbCase {
	var c DumbCase
	if ir(0, 8).Draw(t, "tabs") == 0 {
		c.Tabs = true
		c.Spaces = ir(0, 8).Draw(t, "spacesIgnored")
	} else {
		c.Spaces = ir(0, 8).Draw(t, "spaces")
	}
	var lines []string
	switch k := ir(0, 9).Draw(t, "source"); {
	case k < 7:
		c.Origin = "synthetic"
		lines = genSyntheticLines(t, 14, true)
	default:
		var splice []int
		lines, c.Origin, splice = genRealSlice(t)
		if k == 9 && len(splice) > 0 {
			// insert synthetic lines at a boundary where the real text is in code state
			at := splice[ir(0, len(splice)-1).Draw(t, "spliceAt")]
			ins := genSyntheticLines(t, 4, false)
			lines = append(lines[:at:at], append(ins, lines[at:]...)...)
			c.Origin = "mixed:" + c.Origin[5:]
		}
	}
	// leading indentation of line 1
	lines[0] = pick(t, "firstLead", leadChoices) + strings.TrimLeft(lines[0], " \t")
	c.setSrc(finishText(t, lines))
	if c.Origin == "synthetic" {
		// generator invariant: closed by construction
		if f, closed := scanText(c.bytes()); !closed || f.ambiguous != "" {
			panic(fmt.Sprintf("C12: the generator produced a text that is not lexically closed (%q): %q", f.ambiguous, c.bytes()))
		}
	}
	return c
}

func TestPropDumbindent(t *testing.T) {
	rapid.Check(t, func(t *rapid.T) {
		runDumbCase(t, genDumbCase(t))
	})
}
