package c12

import (
	"crypto/sha256"
	"fmt"
	"io/fs"
	"os"
	"path/filepath"
	"strings"
	"testing"
	"time"

	"verif/internal/ev"
)

// TestDumpRealFiles (development aid, C12_DUMP=file): writes a digest of
// FormatBytes(whole file) for every C file in the repository and a few
// options, to compare the tree before and after a candidate fix.
func TestDumpRealFiles(t *testing.T) {
	path := os.Getenv("C12_DUMP")
	if path == "" {
		t.Skip("C12_DUMP not set")
	}
	cFilesOnce.Do(loadCFiles)
	var b strings.Builder
	for _, f := range cFiles {
		src := []byte(strings.Join(func() []string {
			var s []string
			for _, l := range f.lines {
				s = append(s, string(l))
			}
			return s
		}(), "\n") + "\n")
		for _, o := range []struct {
			sp   int
			tabs bool
		}{{0, false}, {4, false}, {0, true}} {
			r := formatInWorker(src, o.sp, o.tabs, 60*time.Second, 1<<30)
			out, st, msg := r.out1, r.st, r.msg
			if st != wOK {
				fmt.Fprintf(&b, "%s spaces=%d tabs=%v: status %d %s\n", f.rel, o.sp, o.tabs, st, msg)
				continue
			}
			fmt.Fprintf(&b, "%s spaces=%d tabs=%v: %d bytes %x\n", f.rel, o.sp, o.tabs, len(out), sha256.Sum256(out))
		}
	}
	if err := os.WriteFile(path, []byte(b.String()), 0o644); err != nil {
		t.Fatal(err)
	}
}

// TestDumpWuffsFiles (development aid, C12_DUMP_WUFFS=file): digest of the
// formatted form of every *.wuffs file in the repository plus the formatted
// text of some odd one-liners, to compare the tree before and after a
// candidate fix of lang/render.
func TestDumpWuffsFiles(t *testing.T) {
	path := os.Getenv("C12_DUMP_WUFFS")
	if path == "" {
		t.Skip("C12_DUMP_WUFFS not set")
	}
	var b strings.Builder
	one := func(name string, src []byte) {
		l, err := lexWuffs(src)
		if err == nil {
			err = l.parse()
		}
		if err != nil {
			fmt.Fprintf(&b, "%s: rejected\n", name)
			return
		}
		out, err := l.render()
		if err != nil {
			fmt.Fprintf(&b, "%s: render error %v\n", name, err)
			return
		}
		fmt.Fprintf(&b, "%s: %d bytes %x same=%v\n", name, len(out), sha256.Sum256(out), string(out) == string(src))
		if !strings.Contains(name, "/") {
			fmt.Fprintf(&b, "%s", out)
		}
	}
	filepath.WalkDir(ev.RepoRoot(), func(p string, d fs.DirEntry, err error) error {
		if err == nil && !d.IsDir() && strings.HasSuffix(p, ".wuffs") {
			src, _ := os.ReadFile(p)
			rel, _ := filepath.Rel(ev.RepoRoot(), p)
			one(rel, src)
		}
		return nil
	})
	one("oneline-struct", []byte("pub struct foo?(a : base.u32, bb : base.u8)\n"))
	one("fields-on-one-line", []byte("pub struct foo?(\na : base.u32, bb : base.u8,\nccc : base.u8)\n"))
	one("struct-then-func-joined", []byte("pub struct foo?(\na : base.u32,\n); pri func foo.bar!() { var x : base.u8\nx = 1\n}\n"))
	one("struct-then-func-with-arg-joined", []byte("pub struct foo?(\na : base.u32,\n); pri func foo.bar!(x: base.u8) {\nvar x : base.u8\nx = 1\n}\n"))
	os.WriteFile(path, []byte(b.String()), 0o644)
}
