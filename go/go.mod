module verif

go 1.23

require (
	github.com/google/wuffs v0.0.0
	golang.org/x/image v0.24.0
	pgregory.net/rapid v1.3.0
)

replace github.com/google/wuffs => /repo
