// Package c06 decides property C06: interval arithmetic over-approximates
// every concrete result, is tight on finite boxes, reports failure exactly
// when some pair is undefined, and never aliases its operands.
package c06

import (
	"encoding/json"
	"fmt"
	"math/big"
	"os"
	"testing"

	"github.com/google/wuffs/lib/interval"
	"pgregory.net/rapid"

	"verif/internal/ev"
)

func TestMain(m *testing.M) { ev.Main(m) }

// Case is the replayable form of one generated case. Bounds are decimal
// strings, "" means infinite (nil).
type Case struct {
	Op     string    `json:"op"`
	X      [2]string `json:"x"`
	Y      [2]string `json:"y"`
	ExtraX []string  `json:"extra_x,omitempty"` // additional members of X to test (must lie in X)
	ExtraY []string  `json:"extra_y,omitempty"`
}

var ops = []string{"add", "sub", "mul", "quo", "lsh", "rsh", "and", "or", "unite", "intersect"}

func parseBig(s string) *big.Int {
	if s == "" {
		return nil
	}
	z, ok := new(big.Int).SetString(s, 10)
	if !ok {
		panic("bad big " + s)
	}
	return z
}

func fmtBig(z *big.Int) string {
	if z == nil {
		return ""
	}
	return z.String()
}

func (c Case) ranges() (x, y interval.IntRange) {
	return interval.IntRange{parseBig(c.X[0]), parseBig(c.X[1])}, interval.IntRange{parseBig(c.Y[0]), parseBig(c.Y[1])}
}

func apply(op string, x, y interval.IntRange) (z interval.IntRange, ok bool) {
	switch op {
	case "add":
		return x.TryAdd(y)
	case "sub":
		return x.TrySub(y)
	case "mul":
		return x.TryMul(y)
	case "quo":
		return x.TryQuo(y)
	case "lsh":
		return x.TryLsh(y)
	case "rsh":
		return x.TryRsh(y)
	case "and":
		return x.TryAnd(y)
	case "or":
		return x.TryOr(y)
	case "unite":
		return x.TryUnite(y)
	case "intersect":
		return x.TryIntersect(y)
	}
	panic("bad op " + op)
}

// applyPlain calls the non-Try form where it exists.
func applyPlain(op string, x, y interval.IntRange) (z interval.IntRange, exists bool) {
	switch op {
	case "add":
		return x.Add(y), true
	case "sub":
		return x.Sub(y), true
	case "mul":
		return x.Mul(y), true
	case "and":
		return x.And(y), true
	case "or":
		return x.Or(y), true
	case "unite":
		return x.Unite(y), true
	case "intersect":
		return x.Intersect(y), true
	}
	return z, false
}

// concrete computes x op y for integers; defined=false when undefined.
func concrete(op string, x, y *big.Int) (z *big.Int, defined bool) {
	z = new(big.Int)
	switch op {
	case "add":
		return z.Add(x, y), true
	case "sub":
		return z.Sub(x, y), true
	case "mul":
		return z.Mul(x, y), true
	case "quo":
		if y.Sign() == 0 {
			return nil, false
		}
		return z.Quo(x, y), true
	case "lsh":
		if y.Sign() < 0 {
			return nil, false
		}
		if !y.IsUint64() || y.Uint64() > 1<<20 {
			panic("reference shift too large")
		}
		return z.Lsh(x, uint(y.Uint64())), true
	case "rsh":
		if y.Sign() < 0 {
			return nil, false
		}
		if !y.IsUint64() || y.Uint64() > 1<<20 {
			// x >> huge == 0 or -1
			if x.Sign() < 0 {
				return z.SetInt64(-1), true
			}
			return z, true
		}
		return z.Rsh(x, uint(y.Uint64())), true // arithmetic shift (floor) for negative x
	case "and":
		return z.And(x, y), true
	case "or":
		return z.Or(x, y), true
	}
	panic("bad op")
}

func isEmpty(r interval.IntRange) bool {
	return r[0] != nil && r[1] != nil && r[0].Cmp(r[1]) > 0
}

func contains(r interval.IntRange, v *big.Int) bool {
	return (r[0] == nil || r[0].Cmp(v) <= 0) && (r[1] == nil || r[1].Cmp(v) >= 0)
}

func finite(r interval.IntRange) bool { return r[0] != nil && r[1] != nil }

func rstr(r interval.IntRange) string {
	f := func(z *big.Int, inf string) string {
		if z == nil {
			return inf
		}
		s := z.String()
		if len(s) > 60 {
			s = s[:20] + fmt.Sprintf("…(%d digits)…", len(s)) + s[len(s)-10:]
		}
		return s
	}
	return "[" + f(r[0], "-inf") + " ..= " + f(r[1], "+inf") + "]"
}

var (
	one  = big.NewInt(1)
	zero = big.NewInt(0)
)

// members returns deterministic interesting members of r: corners, 0, ±1,
// neighbours of powers of two inside r, and "maximal elements" obtained by
// clearing a set bit of the upper bound and filling to the right.
func members(r interval.IntRange, extra []string, forShift bool) []*big.Int {
	var out []*big.Int
	add := func(v *big.Int) {
		if v == nil || !contains(r, v) {
			return
		}
		for _, o := range out {
			if o.Cmp(v) == 0 {
				return
			}
		}
		out = append(out, new(big.Int).Set(v))
	}
	add(r[0])
	add(r[1])
	add(zero)
	add(one)
	add(big.NewInt(-1))
	add(big.NewInt(2))
	add(big.NewInt(-2))
	for _, e := range extra {
		add(parseBig(e))
	}
	if r[0] != nil {
		add(new(big.Int).Add(r[0], one))
	} else if r[1] != nil {
		add(new(big.Int).Sub(r[1], big.NewInt(1000003)))
	}
	if r[1] != nil {
		add(new(big.Int).Sub(r[1], one))
	} else if r[0] != nil {
		add(new(big.Int).Add(r[0], big.NewInt(1000003)))
	}
	if forShift {
		return out
	}
	// maximal elements below the upper bound / above the lower bound.
	for _, b := range []*big.Int{r[0], r[1]} {
		if b == nil {
			continue
		}
		n := b.BitLen()
		cnt := 0
		for i := n - 1; i >= 0 && cnt < 12; i-- {
			if b.Bit(i) == 1 {
				// clear bit i, fill right
				v := new(big.Int).Set(b)
				neg := v.Sign() < 0
				v.Abs(v)
				v.SetBit(v, i, 0)
				mask := new(big.Int).Sub(new(big.Int).Lsh(one, uint(i)), one)
				v.Or(v, mask)
				if neg {
					v.Neg(v)
				}
				add(v)
				cnt++
			}
		}
		// powers of two near b
		for _, k := range []int{n - 1, n, n - 2} {
			if k < 0 {
				continue
			}
			p := new(big.Int).Lsh(one, uint(k))
			add(p)
			add(new(big.Int).Sub(p, one))
			add(new(big.Int).Neg(p))
			add(new(big.Int).Neg(new(big.Int).Sub(p, one)))
			add(new(big.Int).Sub(new(big.Int).Neg(p), one))
		}
	}
	return out
}

func size(r interval.IntRange) *big.Int {
	if !finite(r) {
		return nil
	}
	if isEmpty(r) {
		return big.NewInt(0)
	}
	s := new(big.Int).Sub(r[1], r[0])
	return s.Add(s, one)
}

type minmax struct {
	lo, hi *big.Int
}

func (m *minmax) add(v *big.Int) {
	if m.lo == nil || v.Cmp(m.lo) < 0 {
		m.lo = new(big.Int).Set(v)
	}
	if m.hi == nil || v.Cmp(m.hi) > 0 {
		m.hi = new(big.Int).Set(v)
	}
}

// exactCorners returns the exact extremes of op over a finite non-empty box,
// for the operations whose extremes are attained at corners of sign-
// homogeneous sub-boxes. Pre-condition: every pair is defined.
func exactCorners(op string, x, y interval.IntRange) minmax {
	var m minmax
	xs := []*big.Int{x[0], x[1]}
	ys := []*big.Int{y[0], y[1]}
	// split points at -1/0 make each sub-box sign-homogeneous.
	for _, v := range []*big.Int{big.NewInt(-1), zero, one} {
		if contains(x, v) {
			xs = append(xs, v)
		}
		if contains(y, v) {
			ys = append(ys, v)
		}
	}
	for _, a := range xs {
		for _, b := range ys {
			if v, ok := concrete(op, a, b); ok {
				m.add(v)
			}
		}
	}
	return m
}

// --- independent exact reference for AND / OR over boxes (Hacker's Delight
// §4-3 minOR/maxOR/minAND/maxAND on W-bit unsigned, applied per sign quadrant
// in two's complement).

func hdMinOR(a, b, c, d *big.Int, w int) *big.Int {
	a, c = new(big.Int).Set(a), new(big.Int).Set(c)
	for i := w - 1; i >= 0; i-- {
		ai, ci := a.Bit(i), c.Bit(i)
		if ai == 0 && ci == 1 {
			// temp = (a | m) & -m
			t := new(big.Int).SetBit(a, i, 1)
			t.Rsh(t, uint(i)).Lsh(t, uint(i))
			if t.Cmp(b) <= 0 {
				a = t
				break
			}
		} else if ai == 1 && ci == 0 {
			t := new(big.Int).SetBit(c, i, 1)
			t.Rsh(t, uint(i)).Lsh(t, uint(i))
			if t.Cmp(d) <= 0 {
				c = t
				break
			}
		}
	}
	return new(big.Int).Or(a, c)
}

func hdMaxOR(a, b, c, d *big.Int, w int) *big.Int {
	b, d = new(big.Int).Set(b), new(big.Int).Set(d)
	for i := w - 1; i >= 0; i-- {
		if b.Bit(i) == 1 && d.Bit(i) == 1 {
			m1 := new(big.Int).Sub(new(big.Int).Lsh(one, uint(i)), one)
			t := new(big.Int).SetBit(b, i, 0)
			t.Or(t, m1)
			if t.Cmp(a) >= 0 {
				b = t
				break
			}
			t = new(big.Int).SetBit(d, i, 0)
			t.Or(t, m1)
			if t.Cmp(c) >= 0 {
				d = t
				break
			}
		}
	}
	return new(big.Int).Or(b, d)
}

func hdMinAND(a, b, c, d *big.Int, w int) *big.Int {
	a, c = new(big.Int).Set(a), new(big.Int).Set(c)
	for i := w - 1; i >= 0; i-- {
		if a.Bit(i) == 0 && c.Bit(i) == 0 {
			t := new(big.Int).SetBit(a, i, 1)
			t.Rsh(t, uint(i)).Lsh(t, uint(i))
			if t.Cmp(b) <= 0 {
				a = t
				break
			}
			t = new(big.Int).SetBit(c, i, 1)
			t.Rsh(t, uint(i)).Lsh(t, uint(i))
			if t.Cmp(d) <= 0 {
				c = t
				break
			}
		}
	}
	return new(big.Int).And(a, c)
}

func hdMaxAND(a, b, c, d *big.Int, w int) *big.Int {
	b, d = new(big.Int).Set(b), new(big.Int).Set(d)
	for i := w - 1; i >= 0; i-- {
		bi, di := b.Bit(i), d.Bit(i)
		m1 := new(big.Int).Sub(new(big.Int).Lsh(one, uint(i)), one)
		if bi == 1 && di == 0 {
			t := new(big.Int).SetBit(b, i, 0)
			t.Or(t, m1)
			if t.Cmp(a) >= 0 {
				b = t
				break
			}
		} else if bi == 0 && di == 1 {
			t := new(big.Int).SetBit(d, i, 0)
			t.Or(t, m1)
			if t.Cmp(c) >= 0 {
				d = t
				break
			}
		}
	}
	return new(big.Int).And(b, d)
}

// exactBitop returns the exact extremes of and/or over a finite non-empty box.
func exactBitop(op string, x, y interval.IntRange) minmax {
	w := 2
	for _, v := range []*big.Int{x[0], x[1], y[0], y[1]} {
		if n := v.BitLen() + 2; n > w {
			w = n
		}
	}
	mod := new(big.Int).Lsh(one, uint(w))
	half := new(big.Int).Lsh(one, uint(w-1))
	toU := func(v *big.Int) *big.Int {
		if v.Sign() < 0 {
			return new(big.Int).Add(v, mod)
		}
		return new(big.Int).Set(v)
	}
	fromU := func(v *big.Int) *big.Int {
		if v.Cmp(half) >= 0 {
			return new(big.Int).Sub(v, mod)
		}
		return v
	}
	split := func(r interval.IntRange) [][2]*big.Int {
		var out [][2]*big.Int
		if r[0].Sign() < 0 {
			hi := r[1]
			if hi.Sign() >= 0 {
				hi = big.NewInt(-1)
			}
			out = append(out, [2]*big.Int{toU(r[0]), toU(hi)})
		}
		if r[1].Sign() >= 0 {
			lo := r[0]
			if lo.Sign() < 0 {
				lo = zero
			}
			out = append(out, [2]*big.Int{toU(lo), toU(r[1])})
		}
		return out
	}
	var m minmax
	for _, xs := range split(x) {
		for _, ys := range split(y) {
			var lo, hi *big.Int
			if op == "and" {
				lo, hi = hdMinAND(xs[0], xs[1], ys[0], ys[1], w), hdMaxAND(xs[0], xs[1], ys[0], ys[1], w)
			} else {
				lo, hi = hdMinOR(xs[0], xs[1], ys[0], ys[1], w), hdMaxOR(xs[0], xs[1], ys[0], ys[1], w)
			}
			m.add(fromU(lo))
			m.add(fromU(hi))
		}
	}
	return m
}

func snapshot(r interval.IntRange) [2]string { return [2]string{fmtBig(r[0]), fmtBig(r[1])} }

// checkCase is the oracle. It returns "" when the property holds on c.
func checkCase(c Case) (msg string, nontrivial bool, classes []string) {
	x, y := c.ranges()
	x0, y0 := snapshot(x), snapshot(y)
	ex, ey := isEmpty(x), isEmpty(y)
	shiftOp := c.Op == "lsh" || c.Op == "rsh"

	z, ok := apply(c.Op, x, y)

	// (v) operands unchanged by the call.
	if snapshot(x) != x0 || snapshot(y) != y0 {
		return fmt.Sprintf("%s mutated an operand: x %v->%v y %v->%v", c.Op, x0, snapshot(x), y0, snapshot(y)), false, nil
	}
	// (v) no shared storage between result and operands.
	for i, zp := range z {
		if zp == nil {
			continue
		}
		for j, p := range []*big.Int{x[0], x[1], y[0], y[1]} {
			if p != nil && p == zp {
				return fmt.Sprintf("%s: result bound %d shares its *big.Int with operand bound %d", c.Op, i, j), false, nil
			}
		}
	}
	// the plain form agrees with the Try form.
	if zp, exists := applyPlain(c.Op, x, y); exists {
		if !ok {
			return fmt.Sprintf("Try%s reported failure but the operation cannot fail", c.Op), false, nil
		}
		if !zp.Eq(z) {
			return fmt.Sprintf("%s and Try%s disagree: %s vs %s", c.Op, c.Op, rstr(zp), rstr(z)), false, nil
		}
	}

	// mutate the result (when non-nil) and see that operands stay intact.
	for _, zp := range z {
		if zp != nil {
			zp2 := new(big.Int).Set(zp)
			zp.Add(zp, big.NewInt(12345))
			zp.Lsh(zp, 3)
			if snapshot(x) != x0 || snapshot(y) != y0 {
				return fmt.Sprintf("%s: mutating the result changed an operand", c.Op), false, nil
			}
			zp.Set(zp2)
		}
	}

	if c.Op == "unite" || c.Op == "intersect" {
		return checkSetOp(c, x, y, z)
	}

	// (iv) failure exactly when both operands are non-empty and some pair is undefined.
	someUndefined := false
	switch c.Op {
	case "quo":
		someUndefined = !ey && contains(y, zero)
	case "lsh", "rsh":
		someUndefined = !ey && (y[0] == nil || y[0].Sign() < 0)
	}
	wantOK := !(someUndefined && !ex && !ey)
	if ok != wantOK {
		return fmt.Sprintf("Try%s(%s, %s): ok=%v, want %v (some pair undefined=%v, x empty=%v, y empty=%v)", c.Op, rstr(x), rstr(y), ok, wantOK, someUndefined, ex, ey), false, nil
	}
	if !ok {
		classes = append(classes, "fail-reported")
		return "", !ex && !ey, classes
	}
	if ex || ey {
		if !isEmpty(z) {
			return fmt.Sprintf("%s with an empty operand returned non-empty %s", c.Op, rstr(z)), false, nil
		}
		classes = append(classes, "empty-operand")
		return "", false, classes
	}
	if isEmpty(z) {
		return fmt.Sprintf("%s(%s, %s) returned an empty interval for non-empty operands", c.Op, rstr(x), rstr(y)), false, nil
	}

	// (i) containment for sampled members.
	mx := members(x, c.ExtraX, false)
	my := members(y, c.ExtraY, shiftOp)
	if shiftOp {
		// keep the concrete reference cheap: shift counts <= 2^20
		keep := my[:0]
		for _, v := range my {
			if v.IsUint64() && v.Uint64() <= 1<<17 {
				keep = append(keep, v)
			}
		}
		my = keep
	}
	for _, a := range mx {
		for _, b := range my {
			v, def := concrete(c.Op, a, b)
			if !def {
				continue
			}
			if !contains(z, v) {
				return fmt.Sprintf("containment: %s %s %s = %s is outside %s(%s, %s) = %s", a, c.Op, b, v, c.Op, rstr(x), rstr(y), rstr(z)), false, nil
			}
		}
	}
	classes = append(classes, "op-"+c.Op)

	// (ii)/(iii) tightness when all four bounds are finite.
	if finite(x) && finite(y) {
		sx, sy := size(x), size(y)
		var exact minmax
		prod := new(big.Int).Mul(sx, sy)
		small := prod.Cmp(big.NewInt(4096)) <= 0 && !(shiftOp && (y[1].BitLen() > 17))
		if small {
			// exhaustive
			for a := new(big.Int).Set(x[0]); a.Cmp(x[1]) <= 0; a.Add(a, one) {
				for b := new(big.Int).Set(y[0]); b.Cmp(y[1]) <= 0; b.Add(b, one) {
					v, def := concrete(c.Op, a, b)
					if !def {
						return "internal: undefined pair although ok", false, nil
					}
					if !contains(z, v) {
						return fmt.Sprintf("containment (exhaustive): %s %s %s = %s is outside %s", a, c.Op, b, v, rstr(z)), false, nil
					}
					exact.add(v)
				}
			}
			classes = append(classes, "exhaustive")
			// cross-validate the wide-box references against brute force.
			var ref minmax
			if c.Op == "and" || c.Op == "or" {
				ref = exactBitop(c.Op, x, y)
			} else {
				ref = exactCorners(c.Op, x, y)
			}
			if ref.lo.Cmp(exact.lo) != 0 || ref.hi.Cmp(exact.hi) != 0 {
				return fmt.Sprintf("ORACLE SELF-CHECK FAILED (not a wuffs defect): reference extremes [%s,%s] != brute force [%s,%s] for %s(%s,%s)", ref.lo, ref.hi, exact.lo, exact.hi, c.Op, rstr(x), rstr(y)), false, nil
			}
		} else if shiftOp && y[1].BitLen() > 17 {
			classes = append(classes, "giant-shift-no-tightness")
			goto done
		} else if c.Op == "and" || c.Op == "or" {
			exact = exactBitop(c.Op, x, y)
			classes = append(classes, "wide-bitop")
		} else {
			exact = exactCorners(c.Op, x, y)
			classes = append(classes, "wide-corner")
		}
		if !finite(z) || z[0].Cmp(exact.lo) != 0 || z[1].Cmp(exact.hi) != 0 {
			return fmt.Sprintf("tightness: %s(%s, %s) = %s but the exact hull is [%s ..= %s]", c.Op, rstr(x), rstr(y), rstr(z), exact.lo, exact.hi), false, nil
		}
	} else {
		classes = append(classes, "infinite-operand")
	}
done:
	// non-trivial rule
	big32 := func(r interval.IntRange) bool {
		for _, b := range r {
			if b != nil && b.BitLen() > 32 {
				return true
			}
		}
		return false
	}
	straddle := func(r interval.IntRange) bool {
		if contains(r, zero) && (r[0] == nil || r[0].Sign() < 0) && (r[1] == nil || r[1].Sign() > 0) {
			return true
		}
		if finite(r) && r[0].Sign() >= 0 && r[1].BitLen() > r[0].BitLen() {
			return true // straddles a power of two
		}
		return false
	}
	hard := c.Op == "and" || c.Op == "or" || c.Op == "lsh" || c.Op == "rsh" || c.Op == "quo"
	nontrivial = big32(x) || big32(y) || (hard && (straddle(x) || straddle(y)))
	return "", nontrivial, classes
}

func checkSetOp(c Case, x, y, z interval.IntRange) (string, bool, []string) {
	ex, ey := isEmpty(x), isEmpty(y)
	// documented conventions
	if c.Op == "intersect" && (ex || ey) && !isEmpty(z) {
		return fmt.Sprintf("intersect with an empty operand returned %s", rstr(z)), false, nil
	}
	if c.Op == "unite" {
		if ex && ey && !isEmpty(z) {
			return fmt.Sprintf("unite of two empty intervals returned %s", rstr(z)), false, nil
		}
		if ex && !ey && !z.Eq(y) {
			return fmt.Sprintf("unite(empty, y) = %s, want y = %s", rstr(z), rstr(y)), false, nil
		}
		if ey && !ex && !z.Eq(x) {
			return fmt.Sprintf("unite(x, empty) = %s, want x = %s", rstr(z), rstr(x)), false, nil
		}
	}
	// set semantics on members: every member of x or y and its neighbours.
	var probes []*big.Int
	for _, r := range []interval.IntRange{x, y, z} {
		for _, b := range r {
			if b != nil {
				probes = append(probes, b, new(big.Int).Add(b, one), new(big.Int).Sub(b, one))
			}
		}
	}
	probes = append(probes, zero)
	for _, e := range append(append([]string{}, c.ExtraX...), c.ExtraY...) {
		probes = append(probes, parseBig(e))
	}
	for _, p := range probes {
		inX, inY, inZ := !ex && contains(x, p), !ey && contains(y, p), !isEmpty(z) && contains(z, p)
		if c.Op == "intersect" && inZ != (inX && inY) {
			return fmt.Sprintf("intersect(%s, %s) = %s: %s in result = %v, in x = %v, in y = %v", rstr(x), rstr(y), rstr(z), p, inZ, inX, inY), false, nil
		}
		if c.Op == "unite" {
			if (inX || inY) && !inZ {
				return fmt.Sprintf("unite(%s, %s) = %s misses %s", rstr(x), rstr(y), rstr(z), p), false, nil
			}
		}
	}
	if c.Op == "unite" && !ex && !ey {
		// tightest hull: bounds are min of lows / max of highs.
		for i := 0; i < 2; i++ {
			var want *big.Int
			if x[i] != nil && y[i] != nil {
				want = x[i]
				if (i == 0 && y[i].Cmp(x[i]) < 0) || (i == 1 && y[i].Cmp(x[i]) > 0) {
					want = y[i]
				}
			}
			if (want == nil) != (z[i] == nil) || (want != nil && want.Cmp(z[i]) != 0) {
				return fmt.Sprintf("unite(%s, %s) = %s is not the tightest hull", rstr(x), rstr(y), rstr(z)), false, nil
			}
		}
	}
	nt := !ex && !ey
	return "", nt, []string{"op-" + c.Op}
}

// ---- generators

func genMagnitude(t *rapid.T, label string) *big.Int {
	class := rapid.IntRange(0, 9).Draw(t, label+"_class")
	var bits int
	switch class {
	case 0, 1, 2:
		bits = rapid.IntRange(0, 4).Draw(t, label+"_bits")
	case 3:
		bits = rapid.SampledFrom([]int{7, 8, 9, 15, 16, 17}).Draw(t, label+"_bits")
	case 4:
		bits = rapid.IntRange(30, 34).Draw(t, label+"_bits")
	case 5:
		bits = rapid.IntRange(62, 66).Draw(t, label+"_bits")
	case 6, 7:
		bits = rapid.IntRange(5, 64).Draw(t, label+"_bits")
	case 8:
		bits = rapid.IntRange(100, 300).Draw(t, label+"_bits")
	default:
		if ev.Thorough() {
			bits = rapid.IntRange(1000, 4000).Draw(t, label+"_bits")
		} else {
			bits = rapid.IntRange(300, 1200).Draw(t, label+"_bits")
		}
	}
	shape := rapid.IntRange(0, 6).Draw(t, label+"_shape")
	z := new(big.Int)
	if bits == 0 {
		return z
	}
	switch shape {
	case 0: // 2^k
		z.Lsh(one, uint(bits-1))
	case 1: // 2^k - 1
		z.Lsh(one, uint(bits))
		z.Sub(z, one)
	case 2: // 2^k + 1
		z.Lsh(one, uint(bits-1))
		z.Add(z, one)
	case 3: // 1..10..0
		k := rapid.IntRange(0, bits).Draw(t, label+"_k")
		z.Lsh(one, uint(bits))
		z.Sub(z, one)
		z.Rsh(z, uint(k))
		z.Lsh(z, uint(k))
	default: // random of that bit length
		nb := (bits + 7) / 8
		b := rapid.SliceOfN(rapid.Byte(), nb, nb).Draw(t, label+"_bytes")
		z.SetBytes(b)
		z.SetBit(z, bits-1, 1)
		mask := new(big.Int).Sub(new(big.Int).Lsh(one, uint(bits)), one)
		z.And(z, mask)
	}
	return z
}

func genSigned(t *rapid.T, label string) *big.Int {
	z := genMagnitude(t, label)
	if rapid.IntRange(0, 2).Draw(t, label+"_neg") == 0 {
		z.Neg(z)
	}
	return z
}

func genRange(t *rapid.T, label string) [2]*big.Int {
	kind := rapid.IntRange(0, 15).Draw(t, label+"_kind")
	switch kind {
	case 0:
		return [2]*big.Int{nil, nil}
	case 1:
		return [2]*big.Int{genSigned(t, label+"_lo"), nil}
	case 2:
		return [2]*big.Int{nil, genSigned(t, label+"_hi")}
	case 3: // empty
		switch rapid.IntRange(0, 2).Draw(t, label+"_empty") {
		case 0:
			return [2]*big.Int{big.NewInt(1), big.NewInt(-1)}
		case 1:
			return [2]*big.Int{big.NewInt(5), big.NewInt(3)}
		default:
			a := genSigned(t, label+"_e")
			return [2]*big.Int{new(big.Int).Add(a, one), a}
		}
	case 4: // singleton
		a := genSigned(t, label+"_s")
		return [2]*big.Int{a, new(big.Int).Set(a)}
	case 5, 6, 7, 8, 9: // small window at arbitrary offset (exhaustive tier)
		a := genSigned(t, label+"_base")
		w := rapid.IntRange(0, 63).Draw(t, label+"_w")
		return [2]*big.Int{a, new(big.Int).Add(a, big.NewInt(int64(w)))}
	case 10, 11: // small numbers around zero
		a := rapid.IntRange(-40, 40).Draw(t, label+"_a")
		w := rapid.IntRange(0, 70).Draw(t, label+"_w")
		return [2]*big.Int{big.NewInt(int64(a)), big.NewInt(int64(a + w))}
	default: // two arbitrary finite bounds
		a, b := genSigned(t, label+"_a"), genSigned(t, label+"_b")
		if a.Cmp(b) > 0 {
			a, b = b, a
		}
		return [2]*big.Int{a, b}
	}
}

func genShiftRange(t *rapid.T, label string) [2]*big.Int {
	kind := rapid.IntRange(0, 11).Draw(t, label+"_kind")
	switch kind {
	case 0: // contains negatives => must fail
		a := rapid.IntRange(-5, -1).Draw(t, label+"_a")
		w := rapid.IntRange(0, 10).Draw(t, label+"_w")
		return [2]*big.Int{big.NewInt(int64(a)), big.NewInt(int64(a + w))}
	case 1:
		return [2]*big.Int{nil, big.NewInt(int64(rapid.IntRange(0, 70).Draw(t, label+"_a")))}
	case 2:
		return [2]*big.Int{big.NewInt(int64(rapid.IntRange(0, 70).Draw(t, label+"_a"))), nil}
	case 3:
		return [2]*big.Int{big.NewInt(3), big.NewInt(1)}
	case 4: // 2^16 +- 1
		a := rapid.IntRange(65535, 65537).Draw(t, label+"_a")
		w := rapid.IntRange(0, 2).Draw(t, label+"_w")
		return [2]*big.Int{big.NewInt(int64(a)), big.NewInt(int64(a + w))}
	default:
		a := rapid.IntRange(0, 70).Draw(t, label+"_a")
		w := rapid.IntRange(0, 70-a+3).Draw(t, label+"_w")
		return [2]*big.Int{big.NewInt(int64(a)), big.NewInt(int64(a + w))}
	}
}

func genExtras(t *rapid.T, r [2]*big.Int, label string) []string {
	n := rapid.IntRange(0, 3).Draw(t, label+"_n")
	var out []string
	for i := 0; i < n; i++ {
		var v *big.Int
		switch {
		case r[0] != nil && r[1] != nil:
			if r[0].Cmp(r[1]) > 0 {
				continue
			}
			span := new(big.Int).Sub(r[1], r[0])
			f := rapid.Uint64().Draw(t, label+"_f")
			v = new(big.Int).Mul(span, new(big.Int).SetUint64(f))
			v.Rsh(v, 64)
			v.Add(v, r[0])
		case r[0] != nil:
			v = new(big.Int).Add(r[0], genMagnitude(t, label+"_m"))
		case r[1] != nil:
			v = new(big.Int).Sub(r[1], genMagnitude(t, label+"_m"))
		default:
			v = genSigned(t, label+"_m")
		}
		out = append(out, v.String())
	}
	return out
}

func genCase(t *rapid.T) Case {
	op := rapid.SampledFrom(ops).Draw(t, "op")
	x := genRange(t, "x")
	var y [2]*big.Int
	if op == "lsh" || op == "rsh" {
		y = genShiftRange(t, "y")
		// keep x << y affordable: |x| <= 2^1200 and y <= 2^16+3
	} else {
		y = genRange(t, "y")
	}
	c := Case{Op: op, X: [2]string{fmtBig(x[0]), fmtBig(x[1])}, Y: [2]string{fmtBig(y[0]), fmtBig(y[1])}}
	c.ExtraX = genExtras(t, x, "ex")
	if op != "lsh" && op != "rsh" {
		c.ExtraY = genExtras(t, y, "ey")
	}
	return c
}

func runCase(t interface {
	Fatalf(string, ...any)
}, c Case) {
	ev.Eval()
	msg, nt, classes := func() (msg string, nt bool, cl []string) {
		defer func() {
			if r := recover(); r != nil {
				msg = fmt.Sprintf("panic: %v", r)
			}
		}()
		return checkCase(c)
	}()
	if msg != "" {
		ev.Fail("C06", "interval", c, msg)
		t.Fatalf("C06 violated: %s\ncase: %+v", msg, c)
	}
	for _, cl := range classes {
		ev.Class(cl)
	}
	if nt {
		ev.Nontrivial(ev.Hash(c.Op, c.X[0], c.X[1], c.Y[0], c.Y[1]), func() any { return c })
	}
}

func TestProp(t *testing.T) {
	rapid.Check(t, func(t *rapid.T) {
		runCase(t, genCase(t))
	})
}

// TestGiantShifts covers shift counts above 2^32 (the big.Exp fallback): only
// on request (VERIF_C06_GIANT=1), three fixed cases: each allocates ~0.5 GiB and runs for many minutes.
func TestGiantShifts(t *testing.T) {
	if os.Getenv("VERIF_C06_GIANT") == "" {
		t.Skip("only with VERIF_C06_GIANT=1: each case computes 2^(2^32)")
	}
	huge := new(big.Int).Lsh(one, 32)
	huge.Add(huge, big.NewInt(3))
	for _, c := range []Case{
		{Op: "rsh", X: [2]string{"-7", "9"}, Y: [2]string{huge.String(), huge.String()}},
		{Op: "rsh", X: [2]string{"-7", "-3"}, Y: [2]string{"4", huge.String()}},
		{Op: "lsh", X: [2]string{"0", "0"}, Y: [2]string{"4", huge.String()}},
	} {
		ev.Eval()
		x, y := c.ranges()
		z, ok := apply(c.Op, x, y)
		if !ok {
			ev.Fail("C06", "interval", c, "giant shift reported failure")
			t.Fatalf("giant shift %+v reported failure", c)
		}
		for _, a := range []*big.Int{x[0], x[1]} {
			v, _ := concrete(c.Op, a, y[1])
			if c.Op == "lsh" {
				v = big.NewInt(0)
			}
			if !contains(z, v) {
				ev.Fail("C06", "interval", c, "giant shift containment")
				t.Fatalf("giant shift %+v: %s not in %s", c, v, rstr(z))
			}
		}
		ev.Class("giant-shift")
	}
}

func TestReplay(t *testing.T) {
	p := ev.ReplayPath()
	if p == "" {
		t.Skip("no VERIF_REPLAY")
	}
	r, err := ev.LoadReplay(p)
	if err != nil {
		t.Fatalf("load: %v", err)
	}
	var c Case
	if err := json.Unmarshal(r.Case, &c); err != nil {
		t.Fatalf("decode: %v", err)
	}
	runCase(t, c)
}
