package c18

import (
	"fmt"
	"math"

	"github.com/google/wuffs/lib/lowleveljpeg"
	"pgregory.net/rapid"

	"verif/internal/ev"
)

// Exact (float64) reference DCT, used only by the known-finding excluder: it
// decides whether a round-trip error above one is the unavoidable consequence
// of storing the coefficients as integers.

var cosTab [8][8]float64 // cosTab[x][u] = alpha(u)/2 * cos((2x+1) u pi / 16)

func init() {
	for x := 0; x < 8; x++ {
		for u := 0; u < 8; u++ {
			a := 1.0
			if u == 0 {
				a = 1 / math.Sqrt2
			}
			cosTab[x][u] = a / 2 * math.Cos(float64(2*x+1)*float64(u)*math.Pi/16)
		}
	}
}

func exactFDCT(pix *[64]float64) (out [64]float64) {
	var tmp [64]float64
	for y := 0; y < 8; y++ {
		for u := 0; u < 8; u++ {
			s := 0.0
			for x := 0; x < 8; x++ {
				s += pix[8*y+x] * cosTab[x][u]
			}
			tmp[8*y+u] = s
		}
	}
	for v := 0; v < 8; v++ {
		for u := 0; u < 8; u++ {
			s := 0.0
			for y := 0; y < 8; y++ {
				s += tmp[8*y+u] * cosTab[y][v]
			}
			out[8*v+u] = s
		}
	}
	return out
}

func exactIDCT(coef *[64]float64) (out [64]float64) {
	var tmp [64]float64
	for v := 0; v < 8; v++ {
		for x := 0; x < 8; x++ {
			s := 0.0
			for u := 0; u < 8; u++ {
				s += coef[8*v+u] * cosTab[x][u]
			}
			tmp[8*v+x] = s
		}
	}
	for y := 0; y < 8; y++ {
		for x := 0; x < 8; x++ {
			s := 0.0
			for v := 0; v < 8; v++ {
				s += tmp[8*v+x] * cosTab[y][v]
			}
			out[8*y+x] = s
		}
	}
	return out
}

// Known finding C18-DCT-1 ("dct-integer-rounding-noise"): because the forward
// DCT stores integers, the rounding noise of the 64 coefficients (each up to
// 0.5) can add up to 1.5 or more at one pixel, for about 3 blocks in a million
// (an exact-arithmetic DCT with round-to-nearest coefficients shows the same
// rate). The excluded shape is decided with exact arithmetic:
//
//	every coefficient returned by ForwardDCT is within 0.55 of the exact real
//	coefficient (i.e. it IS a correct integer rounding), and the exact inverse
//	DCT of those integers is already more than 1.4 away from some pixel.
//
// Everything else (a wrong coefficient, or an inverse DCT that is off although
// the exact inverse is within 1.4) is judged by the literal statement.
const (
	excludeCoefTol  = 0.55
	excludePixelTol = 1.4
)

func checkDCT(c Case) (msg string, nontrivial bool, classes []string) {
	var b lowleveljpeg.BlockU8
	var pf [64]float64
	for i := 0; i < 64 && i < len(c.Pix); i++ {
		v := c.Pix[i]
		if v < 0 {
			v = 0
		}
		if v > 255 {
			v = 255
		}
		b[i] = uint8(v)
	}
	for i := range b {
		pf[i] = float64(b[i]) - 128
	}
	orig := b
	var f lowleveljpeg.BlockI16
	var r lowleveljpeg.BlockU8
	res := guard(func() error {
		f = b.ForwardDCT()
		r = f.InverseDCT()
		return nil
	})
	if res.panicked != nil {
		return fmt.Sprintf("DCT panicked: %v", res.panicked), false, nil
	}
	if b != orig {
		return "ForwardDCT modified its input", false, nil
	}
	if !f.IsValid() || !blockValid(&f) {
		return fmt.Sprintf("ForwardDCT returned a block that is not valid (DC %d):\n%v", f[0], f), false, nil
	}
	// the FromXxx forms agree with the value forms.
	var f2 lowleveljpeg.BlockI16
	var r2 lowleveljpeg.BlockU8
	f2.ForwardDCTFrom(&b)
	r2.InverseDCTFrom(&f)
	if f2 != f || r2 != r {
		return "ForwardDCTFrom / InverseDCTFrom disagree with ForwardDCT / InverseDCT", false, nil
	}

	worst := 0
	for i := range b {
		d := int(r[i]) - int(b[i])
		if d < 0 {
			d = -d
		}
		if d > worst {
			worst = d
		}
	}

	// the excluder (exact arithmetic).
	exact := exactFDCT(&pf)
	admissible := true
	var fi [64]float64
	for i := range exact {
		fi[i] = float64(f[i])
		if math.Abs(fi[i]-exact[i]) > excludeCoefTol {
			admissible = false
		}
	}
	back := exactIDCT(&fi)
	maxExact := 0.0
	for i := range back {
		if e := math.Abs(back[i] - pf[i]); e > maxExact {
			maxExact = e
		}
	}
	if !c.Strict && admissible && maxExact > excludePixelTol {
		ev.Excluded("dct-integer-rounding-noise")
		return "", false, []string{"dct-excluded-known-finding"}
	}

	if worst > 1 {
		for i := range b {
			d := int(r[i]) - int(b[i])
			if d > 1 || d < -1 {
				return fmt.Sprintf("InverseDCT(ForwardDCT(b))[%d] = %d but b[%d] = %d (difference %d > 1); exact inverse of the integer coefficients is %.3f away; coefficients are correct roundings: %v", i, r[i], i, b[i], d, maxExact, admissible), false, nil
			}
		}
	}
	classes = append(classes, fmt.Sprintf("dct-roundtrip-err-%d", worst))
	switch {
	case maxExact > 1.2:
		classes = append(classes, "dct-exact-err>1.2")
	case maxExact > 1.0:
		classes = append(classes, "dct-exact-err>1.0")
	}
	if f[0] == -1024 || f[0] >= 1016 {
		classes = append(classes, "dct-dc-extreme")
	}
	maxAC := 0
	for _, v := range f[1:] {
		if v < 0 {
			v = -v
		}
		if int(v) > maxAC {
			maxAC = int(v)
		}
	}
	if maxAC >= 800 {
		classes = append(classes, "dct-ac>=800")
	}
	return "", false, classes
}

func genDCTCase(t *rapid.T) Case {
	p := make([]int, 64)
	kind := rapid.IntRange(0, 11).Draw(t, "kind")
	switch {
	case kind <= 2: // random
		copy(p, rapid.SliceOfN(rapid.IntRange(0, 255), 64, 64).Draw(t, "pix"))
	case kind == 3: // constant
		v := rapid.OneOf(rapid.SampledFrom([]int{0, 1, 127, 128, 129, 254, 255}), rapid.IntRange(0, 255)).Draw(t, "v")
		for i := range p {
			p[i] = v
		}
	case kind == 4: // checkerboards of period fx, fy
		lo, hi := rapid.IntRange(0, 255).Draw(t, "lo"), rapid.IntRange(0, 255).Draw(t, "hi")
		if rapid.Bool().Draw(t, "full") {
			lo, hi = 0, 255
		}
		fx, fy := rapid.IntRange(1, 8).Draw(t, "fx"), rapid.IntRange(1, 8).Draw(t, "fy")
		for y := 0; y < 8; y++ {
			for x := 0; x < 8; x++ {
				if (x/fx+y/fy)%2 == 0 {
					p[8*y+x] = lo
				} else {
					p[8*y+x] = hi
				}
			}
		}
	case kind <= 6: // extreme: every pixel 0 or 255 (or two random levels)
		lo, hi := 0, 255
		if kind == 6 {
			lo, hi = rapid.IntRange(0, 255).Draw(t, "lo"), rapid.IntRange(0, 255).Draw(t, "hi")
		}
		mask := rapid.Uint64().Draw(t, "mask")
		for i := range p {
			if mask>>uint(i)&1 == 1 {
				p[i] = hi
			} else {
				p[i] = lo
			}
		}
	case kind == 7: // sign pattern of one DCT basis function: maximises that coefficient
		u, v := rapid.IntRange(0, 7).Draw(t, "u"), rapid.IntRange(0, 7).Draw(t, "v")
		inv := rapid.Bool().Draw(t, "inv")
		for y := 0; y < 8; y++ {
			for x := 0; x < 8; x++ {
				if (cosTab[x][u]*cosTab[y][v] > 0) != inv {
					p[8*y+x] = 255
				}
			}
		}
		n := rapid.IntRange(0, 3).Draw(t, "flips")
		for i := 0; i < n; i++ {
			p[rapid.IntRange(0, 63).Draw(t, "flip")] = rapid.IntRange(0, 255).Draw(t, "flipv")
		}
	case kind == 8: // gradient
		a, bx, by := rapid.IntRange(0, 255).Draw(t, "a"), rapid.IntRange(-36, 36).Draw(t, "bx"), rapid.IntRange(-36, 36).Draw(t, "by")
		for y := 0; y < 8; y++ {
			for x := 0; x < 8; x++ {
				p[8*y+x] = a + bx*x + by*y
			}
		}
	default: // a level plus noise
		base := rapid.IntRange(0, 255).Draw(t, "base")
		amp := rapid.IntRange(1, 40).Draw(t, "amp")
		n := rapid.SliceOfN(rapid.IntRange(-amp, amp), 64, 64).Draw(t, "noise")
		for i := range p {
			p[i] = base + n[i]
		}
	}
	for i := range p {
		if p[i] < 0 {
			p[i] = 0
		}
		if p[i] > 255 {
			p[i] = 255
		}
	}
	return Case{Kind: "dct", Pix: p}
}
