// Package c18 decides property C18: lib/lowleveljpeg's Encoder emits valid
// baseline JPEGs holding exactly the (quantised) input coefficients, accepts
// exactly the required number of MCUs, reports the documented errors, and its
// forward / inverse DCT round-trips 8x8 pixel blocks to within one.
package c18

import (
	"bytes"
	"encoding/json"
	"errors"
	"fmt"
	"image"
	"image/color"
	"image/jpeg"
	"io"
	"testing"

	"github.com/google/wuffs/lib/lowleveljpeg"
	"pgregory.net/rapid"

	"verif/internal/ev"
)

func TestMain(m *testing.M) { ev.Main(m) }

// Case is the replayable form of one generated case.
//
// Kind "enc": a history of calls on ONE Encoder. Pool holds coefficient blocks
// (64 values each, in BlockI16 = natural order; may be invalid), Quants holds
// quantisation tables (64 values each, natural order; may contain a zero).
//
// Kind "dct": one 8x8 pixel block.
type Case struct {
	Kind   string  `json:"kind"`
	Pool   [][]int `json:"pool,omitempty"`
	Quants [][]int `json:"quants,omitempty"`
	Ops    []Op    `json:"ops,omitempty"`

	Pix    []int `json:"pix,omitempty"`
	Strict bool  `json:"strict,omitempty"` // dct: judge the literal statement, without the known-finding excluder
}

// Op is one step of an encoder history.
type Op struct {
	K string `json:"k"` // "reset" | "add" | "alloc" | "nilrecv"

	// reset / alloc
	Color int `json:"color,omitempty"` // lowleveljpeg.ColorType value (1, 3, 6 are valid)
	W     int `json:"w,omitempty"`
	H     int `json:"h,omitempty"`
	Opt   int `json:"opt,omitempty"` // 0: nil options, 1: options with nil factors, 2: factors Quants[Q0], Quants[Q1]
	Q0    int `json:"q0,omitempty"`
	Q1    int `json:"q1,omitempty"`

	// add (and the MCU of alloc)
	N      int   `json:"n,omitempty"` // which AddN method is called: 1, 3 or 6
	Nil    bool  `json:"nil,omitempty"`
	B      []int `json:"b,omitempty"`      // pool indices of the N blocks of the first call
	Rep    int   `json:"rep,omitempty"`    // number of consecutive calls (0 means 1)
	Stride int   `json:"stride,omitempty"` // call j uses pool index (B[i] + j*Stride) mod Mod
	Mod    int   `json:"mod,omitempty"`

	// 0: the writer works; 1: the writer fails writing nothing; 2: it fails after half of the bytes.
	Fail int `json:"fail,omitempty"`
}

// ---------------------------------------------------------------- writers

var errInjected = errors.New("c18: injected write failure")

type recWriter struct {
	data     []byte
	calls    int
	failMode int
}

func (w *recWriter) Write(p []byte) (int, error) {
	w.calls++
	switch w.failMode {
	case 1:
		return 0, errInjected
	case 2:
		n := len(p) / 2
		w.data = append(w.data, p[:n]...)
		return n, errInjected
	}
	w.data = append(w.data, p...)
	return len(p), nil
}

// fixedWriter never allocates.
type fixedWriter struct {
	buf [8192]byte
	n   int
}

func (w *fixedWriter) Write(p []byte) (int, error) {
	w.n += copy(w.buf[:], p)
	return len(p), nil
}

// ---------------------------------------------------------------- helpers

func clampI16(v int) int16 {
	if v < -32768 {
		return -32768
	}
	if v > 32767 {
		return 32767
	}
	return int16(v)
}

func poolBlock(c *Case, idx int) (b lowleveljpeg.BlockI16) {
	if len(c.Pool) == 0 {
		return b
	}
	src := c.Pool[((idx%len(c.Pool))+len(c.Pool))%len(c.Pool)]
	for i := 0; i < 64 && i < len(src); i++ {
		b[i] = clampI16(src[i])
	}
	return b
}

// blockValid is the documented validity rule: DC in [-1024, +1023], AC in [-1023, +1023].
func blockValid(b *lowleveljpeg.BlockI16) bool {
	if b[0] < -1024 || b[0] > 1023 {
		return false
	}
	for _, v := range b[1:] {
		if v < -1023 || v > 1023 {
			return false
		}
	}
	return true
}

func quantTable(c *Case, idx int) (q lowleveljpeg.QuantizationFactors) {
	if len(c.Quants) == 0 {
		for i := range q {
			q[i] = 1
		}
		return q
	}
	src := c.Quants[((idx%len(c.Quants))+len(c.Quants))%len(c.Quants)]
	for i := 0; i < 64 && i < len(src); i++ {
		v := src[i]
		if v < 0 {
			v = 0
		}
		if v > 255 {
			v = 255
		}
		q[i] = uint8(v)
	}
	return q
}

func quantValid(q *lowleveljpeg.QuantizationFactors) bool {
	for _, v := range q {
		if v == 0 {
			return false
		}
	}
	return true
}

func validColor(c int) bool { return c == 1 || c == 3 || c == 6 }

func needMCUs(colorType, w, h int) int {
	m := 8
	if colorType == 6 {
		m = 16
	}
	return ((w + m - 1) / m) * ((h + m - 1) / m)
}

type callResult struct {
	err      error
	panicked any
}

func guard(f func() error) (r callResult) {
	defer func() {
		if p := recover(); p != nil {
			r.panicked = p
		}
	}()
	r.err = f()
	return r
}

var sentinels = []error{
	lowleveljpeg.ErrBadAddNForColorType, lowleveljpeg.ErrBadArgument, lowleveljpeg.ErrInvalidBlockI16,
	lowleveljpeg.ErrNilReceiver, lowleveljpeg.ErrPreviouslyReturnedError, lowleveljpeg.ErrTooManyAddNCalls,
}

func errName(err error) string {
	if err == nil {
		return "nil"
	}
	return fmt.Sprintf("%q", err.Error())
}

func inSet(err error, set []error) bool {
	for _, s := range set {
		if errors.Is(err, s) {
			return true
		}
	}
	return false
}

func setNames(set []error) string {
	s := ""
	for i, e := range set {
		if i > 0 {
			s += " or "
		}
		s += errName(e)
	}
	return s
}

// ---------------------------------------------------------------- the encoder oracle

type imageState struct {
	color, w, h int
	qt          [2]lowleveljpeg.QuantizationFactors
	need        int
	mcus        [][6]int32 // pool indices of the accepted MCUs
	done        bool
	dead        bool // an error happened: the output is abandoned
	hdr         *header
}

type encRun struct {
	c       *Case
	pool    []lowleveljpeg.BlockI16
	poolOK  []bool
	ties    bool
	maxAdd  int // most bytes written by one successful AddN
	enc     lowleveljpeg.Encoder
	w       recWriter
	img     *imageState
	everOK  bool // some Reset had valid arguments
	hasErr  bool
	colorOK bool // the model knows the encoder's colour type
	classes map[string]bool
	nt      bool
	work    int
}

func (r *encRun) class(s string) { r.classes[s] = true }

func colorName(c int) string {
	switch c {
	case 1:
		return "gray"
	case 3:
		return "444"
	case 6:
		return "420"
	}
	return "invalid"
}

// expectedComp maps block i of an AddN call to its component (0 luma, 1 Cb, 2 Cr).
func expectedComp(colorType, i int) int {
	switch colorType {
	case 3:
		return i
	case 6:
		if i < 4 {
			return 0
		}
		return i - 3
	}
	return 0
}

func (r *encRun) checkHeader(op Op) string {
	im := r.img
	h, err := parseHeader(r.w.data)
	if err != nil {
		return fmt.Sprintf("the bytes written by Reset are not a baseline JPEG header: %v", err)
	}
	if h.scanStart != len(r.w.data) {
		return fmt.Sprintf("Reset wrote %d bytes after the SOS header", len(r.w.data)-h.scanStart)
	}
	im.hdr = h
	if h.width != im.w || h.height != im.h {
		return fmt.Sprintf("SOF0 declares %dx%d, Reset was given %dx%d", h.width, h.height, im.w, im.h)
	}
	wantComps := 3
	if im.color == 1 {
		wantComps = 1
	}
	if len(h.comps) != wantComps {
		return fmt.Sprintf("SOF0 declares %d components for colour type %s", len(h.comps), colorName(im.color))
	}
	for i, c := range h.comps {
		wh, wv := 1, 1
		if im.color == 6 && i == 0 {
			wh, wv = 2, 2
		}
		if c.h != wh || c.v != wv {
			return fmt.Sprintf("SOF0 component %d has sampling factors %dx%d, colour type %s needs %dx%d", i, c.h, c.v, colorName(im.color), wh, wv)
		}
		want := &im.qt[0]
		if i > 0 {
			want = &im.qt[1]
		}
		got := h.qt[c.tq]
		for k := 0; k < 64; k++ {
			if got[k] != int(want[k]) {
				return fmt.Sprintf("component %d: DQT table %d has factor %d at natural index %d, the requested table has %d", i, c.tq, got[k], k, want[k])
			}
		}
	}
	cfg, err := jpeg.DecodeConfig(bytes.NewReader(r.w.data))
	if err != nil {
		return fmt.Sprintf("image/jpeg.DecodeConfig rejects the header: %v", err)
	}
	if cfg.Width != im.w || cfg.Height != im.h {
		return fmt.Sprintf("image/jpeg.DecodeConfig reports %dx%d, want %dx%d", cfg.Width, cfg.Height, im.w, im.h)
	}
	if (im.color == 1) != (cfg.ColorModel == color.GrayModel) {
		return fmt.Sprintf("image/jpeg.DecodeConfig reports colour model %v for colour type %s", cfg.ColorModel, colorName(im.color))
	}
	return ""
}

type cmpError string

func (e cmpError) Error() string { return string(e) }

// compareMCU checks one decoded MCU against round-to-nearest(coef / q).
func (r *encRun) compareMCU(m int, blocks [][64]int16) error {
	im := r.img
	n := im.color
	if len(blocks) != n {
		return cmpError(fmt.Sprintf("the frame header implies %d blocks per MCU, colour type %s has %d", len(blocks), colorName(im.color), n))
	}
	if m >= len(im.mcus) {
		return cmpError(fmt.Sprintf("the file holds MCU %d but only %d were added", m, len(im.mcus)))
	}
	for i := 0; i < n; i++ {
		got := &blocks[i]
		in := &r.pool[im.mcus[m][i]]
		q := &im.qt[0]
		if expectedComp(im.color, i) > 0 {
			q = &im.qt[1]
		}
		for k := 0; k < 64; k++ {
			d := int(got[k])*int(q[k]) - int(in[k])
			if d < 0 {
				d = -d
			}
			if 2*d > int(q[k]) {
				return cmpError(fmt.Sprintf("MCU %d block %d natural index %d: coefficient %d with factor %d decodes to %d, which is not %d/%d rounded to nearest", m, i, k, in[k], q[k], got[k], in[k], q[k]))
			}
			if 2*d == int(q[k]) {
				r.ties = true
			}
		}
	}
	return nil
}

func (r *encRun) checkComplete() string {
	im := r.img
	res, err := decodeScan(r.w.data, im.hdr, false, 0, r.compareMCU)
	if ce, ok := err.(cmpError); ok {
		return string(ce)
	}
	if err != nil {
		return fmt.Sprintf("entropy-coded data of the complete %s %dx%d file: %v", colorName(im.color), im.w, im.h, err)
	}
	if res.total != im.need || res.mcus != im.need {
		return fmt.Sprintf("decoded %d of %d MCUs, expected %d", res.mcus, res.total, im.need)
	}
	if !res.padOK {
		return "the bits padding the last entropy-coded byte are not all 1"
	}
	tail := r.w.data[res.end:]
	if len(tail) != 2 || tail[0] != 0xFF || tail[1] != 0xD9 {
		t := tail
		if len(t) > 8 {
			t = t[:8]
		}
		return fmt.Sprintf("after the last MCU the file continues with % X (%d bytes), want exactly the EOI marker FF D9", t, len(tail))
	}
	m, err := jpeg.Decode(bytes.NewReader(r.w.data))
	if err != nil {
		return fmt.Sprintf("image/jpeg.Decode rejects the complete file: %v", err)
	}
	if b := m.Bounds(); b != image.Rect(0, 0, im.w, im.h) {
		return fmt.Sprintf("image/jpeg.Decode bounds %v, want %dx%d", b, im.w, im.h)
	}
	switch mm := m.(type) {
	case *image.Gray:
		if im.color != 1 {
			return "image/jpeg.Decode returned a gray image for a colour file"
		}
	case *image.YCbCr:
		want := image.YCbCrSubsampleRatio444
		if im.color == 6 {
			want = image.YCbCrSubsampleRatio420
		}
		if im.color == 1 || mm.SubsampleRatio != want {
			return fmt.Sprintf("image/jpeg.Decode returned YCbCr %v for colour type %s", mm.SubsampleRatio, colorName(im.color))
		}
	default:
		return fmt.Sprintf("image/jpeg.Decode returned %T", m)
	}

	r.class("complete")
	r.class("complete-" + colorName(im.color))
	switch {
	case im.need == 1:
		r.class("mcus-1")
	case im.need <= 8:
		r.class("mcus-2..8")
	case im.need <= 64:
		r.class("mcus-9..64")
	default:
		r.class("mcus-65..4096")
	}
	if res.st.zrl {
		r.class("zero-run>=16")
	}
	if res.st.maxCat >= 10 {
		r.class("category>=10")
	}
	if res.st.maxCat == 11 {
		r.class("dc-category-11")
	}
	if res.st.stuffed > 0 {
		r.class("stuffing")
	}
	if res.st.eob > 0 {
		r.class("eob")
	}
	if res.st.fullBlk > 0 {
		r.class("block-without-eob")
	}
	if im.need >= 2 && (res.st.zrl || res.st.maxCat >= 10) {
		r.nt = true
	}
	return ""
}

// checkPartial verifies an abandoned (too few MCUs) image: every MCU that is
// completely present in the output must be right; at most the last 7 bits are
// still inside the encoder.
func (r *encRun) checkPartial() string {
	im := r.img
	if im == nil || im.dead || im.done || im.hdr == nil {
		return ""
	}
	r.class("hist-too-few")
	if len(im.mcus) == 0 {
		r.class("hist-header-only")
	}
	if im.w > 4096 || im.h > 4096 {
		r.class("too-few-huge-dims")
	}
	res, err := decodeScan(r.w.data, im.hdr, true, len(im.mcus)+1, r.compareMCU)
	if ce, ok := err.(cmpError); ok {
		return string(ce)
	}
	if err != nil {
		return fmt.Sprintf("entropy-coded data of the unfinished %s %dx%d file (%d of %d MCUs added): %v", colorName(im.color), im.w, im.h, len(im.mcus), im.need, err)
	}
	if res.total != im.need {
		return fmt.Sprintf("the frame header implies %d MCUs, %s %dx%d needs %d", res.total, colorName(im.color), im.w, im.h, im.need)
	}
	if res.mcus > len(im.mcus) {
		return fmt.Sprintf("the output holds %d MCUs but only %d were added", res.mcus, len(im.mcus))
	}
	if res.mcus < len(im.mcus)-2 {
		return fmt.Sprintf("only %d MCUs are decodable after %d successful AddN calls (at most 7 bits may be pending)", res.mcus, len(im.mcus))
	}
	if res.mcus > 0 {
		r.class("partial-verified")
	}
	return ""
}

func (r *encRun) doReset(oi int, op Op) string {
	if msg := r.checkPartial(); msg != "" {
		return msg
	}
	if r.img != nil {
		r.class("hist-reset-reuse")
	}
	r.img = nil
	argsOK := validColor(op.Color) && op.W >= 1 && op.W <= 0xFFFF && op.H >= 1 && op.H <= 0xFFFF
	var opts *lowleveljpeg.EncoderOptions
	var qf lowleveljpeg.Array2QuantizationFactors
	tablesOK, onlyChromaBad := true, false
	switch op.Opt {
	case 1:
		opts = &lowleveljpeg.EncoderOptions{}
	case 2:
		qf[0], qf[1] = quantTable(r.c, op.Q0), quantTable(r.c, op.Q1)
		opts = &lowleveljpeg.EncoderOptions{QuantizationFactors: &qf}
		v0, v1 := quantValid(&qf[0]), quantValid(&qf[1])
		tablesOK = v0 && v1
		onlyChromaBad = v0 && !v1 && op.Color == 1
	}
	qfBefore := qf
	r.w.data = r.w.data[:0]
	r.w.failMode = op.Fail
	calls0 := r.w.calls
	res := guard(func() error {
		return r.enc.Reset(&r.w, lowleveljpeg.ColorType(op.Color), op.W, op.H, opts)
	})
	r.w.failMode = 0
	what := fmt.Sprintf("op %d Reset(%s(%d), %d, %d, opt %d)", oi, colorName(op.Color), op.Color, op.W, op.H, op.Opt)
	if res.panicked != nil {
		return fmt.Sprintf("%s panicked: %v", what, res.panicked)
	}
	if qf != qfBefore {
		return what + " modified the caller's quantisation tables"
	}
	switch {
	case !argsOK:
		r.class("hist-bad-reset-args")
		if !errors.Is(res.err, lowleveljpeg.ErrBadArgument) {
			return fmt.Sprintf("%s with invalid arguments returned %s, want ErrBadArgument", what, errName(res.err))
		}
		r.hasErr, r.colorOK = true, false
		return ""
	case !tablesOK && !(onlyChromaBad && res.err == nil):
		r.class("hist-bad-tables")
		if !errors.Is(res.err, lowleveljpeg.ErrBadArgument) {
			return fmt.Sprintf("%s with a zero quantisation factor returned %s, want ErrBadArgument", what, errName(res.err))
		}
		r.hasErr, r.colorOK = true, false
		return ""
	case op.Fail != 0 && r.w.calls > calls0:
		r.class("hist-writer-fail-reset")
		if res.err == nil {
			return what + " returned nil although the io.Writer failed"
		}
		r.hasErr, r.colorOK = true, false
		return ""
	}
	if res.err != nil {
		return fmt.Sprintf("%s with valid arguments returned %s", what, errName(res.err))
	}
	r.hasErr, r.colorOK, r.everOK = false, true, true
	im := &imageState{color: op.Color, w: op.W, h: op.H, need: needMCUs(op.Color, op.W, op.H)}
	if op.Opt == 2 {
		im.qt = qf
	} else {
		// documented: nil options / nil factors mean DefaultQuality.
		var d lowleveljpeg.Array2QuantizationFactors
		d.SetToStandardValues(lowleveljpeg.DefaultQuality)
		im.qt = d
		r.class("default-tables")
	}
	r.img = im
	r.class("color-" + colorName(op.Color))
	if op.W > 4096 || op.H > 4096 {
		r.class("header-huge-dims")
	}
	if msg := r.checkHeader(op); msg != "" {
		return what + ": " + msg
	}
	return ""
}

func (r *encRun) doAdd(oi int, op Op) string {
	rep := op.Rep
	if rep < 1 {
		rep = 1
	}
	n := op.N
	if n != 1 && n != 3 && n != 6 {
		n = 1
	}
	mod := op.Mod
	if mod <= 0 || mod > len(r.c.Pool) {
		mod = len(r.c.Pool)
	}
	for j := 0; j < rep; j++ {
		r.work++
		if r.work > 40000 {
			return ""
		}
		var blocks [6]lowleveljpeg.BlockI16
		var ref [6]int32
		invalid := false
		for i := 0; i < n; i++ {
			idx := 0
			if i < len(op.B) {
				idx = op.B[i]
			}
			if mod > 0 {
				idx = (((idx + j*op.Stride) % mod) + mod) % mod
			} else {
				idx = 0
			}
			ref[i] = int32(idx)
			blocks[i] = r.pool[idx]
			if !r.poolOK[idx] {
				invalid = true
			}
		}
		var a1 *lowleveljpeg.Array1BlockI16
		var a3 *lowleveljpeg.Array3BlockI16
		var a6 *lowleveljpeg.Array6BlockI16
		if !op.Nil {
			switch n {
			case 1:
				a1 = &lowleveljpeg.Array1BlockI16{}
				copy(a1[:], blocks[:])
			case 3:
				a3 = &lowleveljpeg.Array3BlockI16{}
				copy(a3[:], blocks[:])
			case 6:
				a6 = &lowleveljpeg.Array6BlockI16{}
				copy(a6[:], blocks[:])
			}
		}
		fail := 0
		if j == 0 {
			fail = op.Fail
		}
		r.w.failMode = fail
		calls0, len0 := r.w.calls, len(r.w.data)
		res := guard(func() error {
			switch n {
			case 1:
				return r.enc.Add1(&r.w, a1)
			case 3:
				return r.enc.Add3(&r.w, a3)
			}
			return r.enc.Add6(&r.w, a6)
		})
		r.w.failMode = 0
		what := fmt.Sprintf("op %d call %d Add%d", oi, j, n)
		if res.panicked != nil {
			return fmt.Sprintf("%s panicked: %v", what, res.panicked)
		}
		if !op.Nil {
			for i := 0; i < n; i++ {
				var now lowleveljpeg.BlockI16
				switch n {
				case 1:
					now = a1[i]
				case 3:
					now = a3[i]
				case 6:
					now = a6[i]
				}
				if now != blocks[i] {
					return what + " modified the caller's blocks"
				}
			}
		}

		// Which documented errors apply?
		var set []error
		im := r.img
		if !r.everOK && r.img == nil && !r.hasErr {
			// AddN on an Encoder that was never Reset: undocumented which error.
			r.class("hist-no-reset")
			if res.err == nil {
				return what + " on an Encoder that was never Reset returned nil"
			}
			r.hasErr = true
			continue
		}
		if r.hasErr {
			set = append(set, lowleveljpeg.ErrPreviouslyReturnedError)
		}
		if !r.colorOK || (im != nil && n != im.color) {
			// wrong N for the colour type (or the colour type is not known to the model).
			if r.colorOK || r.hasErr {
				set = append(set, lowleveljpeg.ErrBadAddNForColorType)
			}
		}
		wrongN := r.colorOK && im != nil && n != im.color
		if op.Nil {
			set = append(set, lowleveljpeg.ErrBadArgument)
		}
		if invalid && !op.Nil {
			set = append(set, lowleveljpeg.ErrInvalidBlockI16)
		}
		if im != nil && im.done || (r.hasErr && im == nil) {
			set = append(set, lowleveljpeg.ErrTooManyAddNCalls)
		}
		mustFail := r.hasErr || wrongN || op.Nil || invalid || (im != nil && im.done)

		if mustFail {
			switch {
			case r.hasErr:
				r.class("hist-after-error")
			case wrongN:
				r.class("hist-wrong-N")
			case op.Nil:
				r.class("hist-nil-arg")
			case invalid && im != nil && im.done:
				r.class("hist-too-many+invalid")
			case invalid:
				r.class("hist-invalid-block")
			default:
				r.class("hist-too-many")
			}
			if res.err == nil {
				return fmt.Sprintf("%s returned nil, want %s", what, setNames(set))
			}
			if !inSet(res.err, set) {
				return fmt.Sprintf("%s returned %s, want %s", what, errName(res.err), setNames(set))
			}
			r.hasErr = true
			if im != nil {
				im.dead = true
			}
			continue
		}
		if im == nil { // cannot happen for generated cases; keeps hand-written replays safe
			if res.err == nil {
				return what + " returned nil although no image is in progress"
			}
			r.hasErr = true
			continue
		}
		if fail != 0 && r.w.calls > calls0 {
			r.class("hist-writer-fail-add")
			if res.err == nil {
				return what + " returned nil although the io.Writer failed"
			}
			r.hasErr = true
			im.dead = true
			continue
		}
		if res.err != nil {
			return fmt.Sprintf("%s (valid call, MCU %d of %d) returned %s", what, len(im.mcus), im.need, errName(res.err))
		}
		if n := len(r.w.data) - len0; n > r.maxAdd {
			r.maxAdd = n
		}
		im.mcus = append(im.mcus, ref)
		if len(im.mcus) == im.need {
			im.done = true
			if msg := r.checkComplete(); msg != "" {
				return msg
			}
		}
	}
	return ""
}

// doAlloc measures allocations of Reset + AddN on a separate Encoder.
func (r *encRun) doAlloc(oi int, op Op) string {
	if !validColor(op.Color) || op.W < 1 || op.W > 0xFFFF || op.H < 1 || op.H > 0xFFFF {
		return ""
	}
	var qf lowleveljpeg.Array2QuantizationFactors
	var opts *lowleveljpeg.EncoderOptions
	switch op.Opt {
	case 1:
		opts = &lowleveljpeg.EncoderOptions{}
	case 2:
		qf[0], qf[1] = quantTable(r.c, op.Q0), quantTable(r.c, op.Q1)
		if !quantValid(&qf[0]) || !quantValid(&qf[1]) {
			return ""
		}
		opts = &lowleveljpeg.EncoderOptions{QuantizationFactors: &qf}
	}
	var a1 lowleveljpeg.Array1BlockI16
	var a3 lowleveljpeg.Array3BlockI16
	var a6 lowleveljpeg.Array6BlockI16
	for i := 0; i < 6; i++ {
		idx := 0
		if i < len(op.B) {
			idx = op.B[i]
		}
		b := poolBlock(r.c, idx)
		if !blockValid(&b) {
			return ""
		}
		a6[i] = b
		if i < 3 {
			a3[i] = b
		}
		if i < 1 {
			a1[i] = b
		}
	}
	adds := needMCUs(op.Color, op.W, op.H)
	if adds > 3 {
		adds = 3
	}
	enc := &lowleveljpeg.Encoder{}
	fw := &fixedWriter{}
	var w io.Writer = fw
	ct := lowleveljpeg.ColorType(op.Color)
	var firstErr error
	f := func() {
		fw.n = 0
		if err := enc.Reset(w, ct, op.W, op.H, opts); err != nil && firstErr == nil {
			firstErr = err
		}
		for k := 0; k < adds; k++ {
			var err error
			switch ct {
			case lowleveljpeg.ColorTypeGray:
				err = enc.Add1(w, &a1)
			case lowleveljpeg.ColorTypeYCbCr444:
				err = enc.Add3(w, &a3)
			default:
				err = enc.Add6(w, &a6)
			}
			if err != nil && firstErr == nil {
				firstErr = err
			}
		}
	}
	best := -1.0
	var pan any
	for try := 0; try < 3 && best != 0; try++ {
		func() {
			defer func() {
				if p := recover(); p != nil {
					pan = p
				}
			}()
			a := testing.AllocsPerRun(10, f)
			if best < 0 || a < best {
				best = a
			}
		}()
		if pan != nil {
			return fmt.Sprintf("op %d alloc: panic %v", oi, pan)
		}
	}
	if firstErr != nil {
		return fmt.Sprintf("op %d alloc: valid Reset+Add%d sequence returned %v", oi, op.Color, firstErr)
	}
	r.class("alloc-measured")
	if best != 0 {
		return fmt.Sprintf("op %d: Reset + %d x Add%d allocate %.1f times per run (three measurements), want 0", oi, adds, op.Color, best)
	}
	return ""
}

func (r *encRun) doNilRecv(oi int) string {
	var e *lowleveljpeg.Encoder
	var a1 lowleveljpeg.Array1BlockI16
	var a3 lowleveljpeg.Array3BlockI16
	var a6 lowleveljpeg.Array6BlockI16
	w := &recWriter{}
	for i, f := range []func() error{
		func() error { return e.Reset(w, lowleveljpeg.ColorTypeGray, 8, 8, nil) },
		func() error { return e.Add1(w, &a1) },
		func() error { return e.Add3(w, &a3) },
		func() error { return e.Add6(w, &a6) },
	} {
		res := guard(f)
		if res.panicked != nil {
			return fmt.Sprintf("op %d: method %d on a nil *Encoder panicked: %v", oi, i, res.panicked)
		}
		if !errors.Is(res.err, lowleveljpeg.ErrNilReceiver) {
			return fmt.Sprintf("op %d: method %d on a nil *Encoder returned %s, want ErrNilReceiver", oi, i, errName(res.err))
		}
	}
	r.class("hist-nil-receiver")
	return ""
}

// outBuf is recycled between cases (only its capacity survives).
var outBuf []byte

func checkEnc(c Case) (msg string, nontrivial bool, classes []string) {
	r := &encRun{c: &c, classes: map[string]bool{}}
	r.w.data = outBuf[:0]
	defer func() {
		if cap(r.w.data) > cap(outBuf) {
			outBuf = r.w.data[:0]
		}
	}()
	for i := range c.Pool {
		b := poolBlock(&c, i)
		r.pool = append(r.pool, b)
		r.poolOK = append(r.poolOK, blockValid(&b))
	}
	if len(r.pool) == 0 {
		r.pool, r.poolOK = []lowleveljpeg.BlockI16{{}}, []bool{true}
	}
	for oi, op := range c.Ops {
		switch op.K {
		case "reset":
			msg = r.doReset(oi, op)
		case "add":
			msg = r.doAdd(oi, op)
		case "alloc":
			msg = r.doAlloc(oi, op)
		case "nilrecv":
			msg = r.doNilRecv(oi)
		}
		if msg != "" {
			return msg, false, nil
		}
	}
	if msg = r.checkPartial(); msg != "" {
		return msg, false, nil
	}
	if r.ties {
		r.class("tie-seen")
	}
	switch {
	case r.maxAdd >= 1536:
		r.class("addn-wrote>=1536B")
	case r.maxAdd >= 1024:
		r.class("addn-wrote>=1024B")
	}
	for k := range r.classes {
		classes = append(classes, k)
	}
	return "", r.nt, classes
}

// checkCase is the oracle. It returns "" when the property holds on c.
func checkCase(c Case) (msg string, nontrivial bool, classes []string) {
	switch c.Kind {
	case "dct":
		return checkDCT(c)
	default:
		return checkEnc(c)
	}
}

func runCase(t interface {
	Fatalf(string, ...any)
}, c Case) {
	ev.Eval()
	msg, nt, classes := func() (msg string, nt bool, cl []string) {
		defer func() {
			if r := recover(); r != nil {
				msg = fmt.Sprintf("panic: %v", r)
			}
		}()
		return checkCase(c)
	}()
	if msg != "" {
		ev.Fail("C18", c.Kind, c, msg)
		t.Fatalf("C18 violated: %s", msg)
	}
	for _, cl := range classes {
		ev.Class(cl)
	}
	if nt {
		b, _ := json.Marshal(c)
		ev.Nontrivial(ev.Hash(b), func() any { return summary(c) })
	}
}

// summary is the (small) sample stored in the evidence file.
func summary(c Case) any {
	type s struct {
		Kind   string `json:"kind"`
		Blocks int    `json:"pool_blocks"`
		Tables int    `json:"quant_tables"`
		Ops    []Op   `json:"ops"`
	}
	ops := c.Ops
	if len(ops) > 12 {
		ops = ops[:12]
	}
	return s{c.Kind, len(c.Pool), len(c.Quants), ops}
}

func TestPropEnc(t *testing.T) {
	rapid.Check(t, func(t *rapid.T) {
		runCase(t, genEncCase(t))
	})
}

func TestPropDCT(t *testing.T) {
	rapid.Check(t, func(t *rapid.T) {
		runCase(t, genDCTCase(t))
	})
}

func TestReplay(t *testing.T) {
	p := ev.ReplayPath()
	if p == "" {
		t.Skip("no VERIF_REPLAY")
	}
	r, err := ev.LoadReplay(p)
	if err != nil {
		t.Fatalf("load: %v", err)
	}
	var c Case
	if err := json.Unmarshal(r.Case, &c); err != nil {
		t.Fatalf("decode: %v", err)
	}
	if c.Kind == "" {
		c.Kind = r.Kind
	}
	runCase(t, c)
}
