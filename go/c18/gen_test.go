package c18

import (
	"fmt"

	"github.com/google/wuffs/lib/lowleveljpeg"
	"pgregory.net/rapid"
)

// ---------------------------------------------------------------- quantisation tables

func constTable(v int) []int {
	q := make([]int, 64)
	for i := range q {
		q[i] = v
	}
	return q
}

func genQuant(t *rapid.T, label string, invalid bool) []int {
	var q []int
	switch k := rapid.IntRange(0, 12).Draw(t, label+"_kind"); {
	case k <= 2:
		q = constTable(1)
	case k <= 6: // the package's standard tables
		quality := rapid.OneOf(rapid.SampledFrom([]int{1, 2, 10, 23, 24, 25, 49, 50, 51, 75, 90, 95, 99, 100}), rapid.IntRange(1, 100)).Draw(t, label+"_quality")
		which := rapid.IntRange(0, 1).Draw(t, label+"_which")
		var f lowleveljpeg.QuantizationFactors
		f.SetToStandardValues(lowleveljpeg.QuantizationStandardValuesType(which), quality)
		q = make([]int, 64)
		for i := range q {
			q[i] = int(f[i])
		}
	case k == 7:
		q = constTable(255)
	case k <= 9:
		q = rapid.SliceOfN(rapid.IntRange(1, 255), 64, 64).Draw(t, label+"_rand")
	case k == 10:
		q = rapid.SliceOfN(rapid.IntRange(1, 4), 64, 64).Draw(t, label+"_small")
	case k == 11:
		q = rapid.SliceOfN(rapid.SampledFrom([]int{2, 4, 8, 16, 64, 254}), 64, 64).Draw(t, label+"_even")
	default:
		q = constTable(rapid.SampledFrom([]int{2, 3, 7, 16, 100, 128, 254}).Draw(t, label+"_const"))
	}
	if invalid {
		n := rapid.IntRange(1, 3).Draw(t, label+"_zeros")
		for i := 0; i < n; i++ {
			q[rapid.IntRange(0, 63).Draw(t, label+"_zeropos")] = 0
		}
	}
	return q
}

// ---------------------------------------------------------------- coefficient blocks

var allOnes = []int{1, 3, 7, 15, 31, 63, 127, 255, 511, 1023}

func genAC(t *rapid.T, label string) int {
	var v int
	switch rapid.IntRange(0, 6).Draw(t, label+"_mag") {
	case 0:
		v = 1
	case 1:
		v = rapid.IntRange(2, 15).Draw(t, label+"_v")
	case 2:
		v = rapid.SampledFrom(allOnes).Draw(t, label+"_v")
	case 3:
		v = rapid.SampledFrom([]int{2, 4, 8, 16, 32, 64, 128, 256, 512}).Draw(t, label+"_v")
	case 4:
		v = rapid.IntRange(511, 1023).Draw(t, label+"_v")
	case 5:
		v = 1023
	default:
		v = rapid.IntRange(1, 1023).Draw(t, label+"_v")
	}
	if rapid.Bool().Draw(t, label+"_neg") {
		v = -v
	}
	return v
}

func genDC(t *rapid.T, label string) int {
	return rapid.OneOf(
		rapid.SampledFrom([]int{-1024, 1023, -1023, 1022, 0, 1, -1, 512, -512, 511, 255, -256}),
		rapid.IntRange(-1024, 1023),
	).Draw(t, label+"_dc")
}

var runChoices = []int{0, 0, 1, 2, 5, 14, 15, 16, 17, 30, 31, 32, 33, 47, 48, 61, 62}

func genValidBlock(t *rapid.T, label string, tables [][]int) []int {
	b := make([]int, 64)
	switch k := rapid.IntRange(0, 18).Draw(t, label+"_kind"); {
	case k <= 1: // uniformly random in the valid range
		v := rapid.SliceOfN(rapid.IntRange(-1023, 1023), 64, 64).Draw(t, label+"_rand")
		copy(b, v)
		b[0] = genDC(t, label)
	case k <= 3: // all-extreme
		pat := rapid.IntRange(0, 3).Draw(t, label+"_pat")
		signs := rapid.Uint64().Draw(t, label+"_signs")
		for z := 1; z < 64; z++ {
			v := 1023
			switch pat {
			case 1:
				v = -1023
			case 2:
				if z%2 == 0 {
					v = -1023
				}
			case 3:
				if signs>>uint(z)&1 == 1 {
					v = -1023
				}
			}
			b[zz[z]] = v
		}
		b[0] = rapid.SampledFrom([]int{-1024, 1023}).Draw(t, label+"_dc")
	case k <= 5: // adjusted-diff bits all ones: maximises 0xFF bytes
		same := rapid.Bool().Draw(t, label+"_same")
		v0 := rapid.SampledFrom(allOnes).Draw(t, label+"_v0")
		for z := 1; z < 64; z++ {
			if same {
				b[zz[z]] = v0
			} else {
				b[zz[z]] = rapid.SampledFrom(allOnes).Draw(t, fmt.Sprintf("%s_v%d", label, z))
			}
		}
		b[0] = rapid.SampledFrom([]int{1023, 511, 255, -1024, 0}).Draw(t, label+"_dc")
	case k <= 9: // sparse with chosen zero runs
		n := rapid.IntRange(1, 4).Draw(t, label+"_nruns")
		pos := 0
		for i := 0; i < n; i++ {
			pos += rapid.SampledFrom(runChoices).Draw(t, fmt.Sprintf("%s_run%d", label, i)) + 1
			if pos > 63 {
				break
			}
			b[zz[pos]] = genAC(t, fmt.Sprintf("%s_ac%d", label, i))
		}
		b[0] = genDC(t, label)
	case k <= 12: // image-like: amplitude decays with frequency, many zeros
		amp := rapid.SampledFrom([]int{4, 32, 256, 1023}).Draw(t, label+"_amp")
		mask := rapid.Uint64().Draw(t, label+"_mask") & rapid.Uint64().Draw(t, label+"_mask2")
		cut := rapid.IntRange(1, 63).Draw(t, label+"_cut")
		for z := 1; z <= cut; z++ {
			a := amp >> uint(z/6)
			if a < 1 {
				a = 1
			}
			if mask>>uint(z)&1 == 1 {
				continue
			}
			b[zz[z]] = rapid.IntRange(-a, a).Draw(t, fmt.Sprintf("%s_c%d", label, z))
		}
		b[0] = genDC(t, label)
	case k <= 14 && len(tables) > 0: // exact ties and exact multiples of one of the case's tables
		q := tables[rapid.IntRange(0, len(tables)-1).Draw(t, label+"_table")]
		dens := rapid.IntRange(1, 4).Draw(t, label+"_dens")
		for i := 0; i < 64; i++ {
			if i > 0 && rapid.IntRange(0, 3).Draw(t, fmt.Sprintf("%s_z%d", label, i)) >= dens {
				continue
			}
			L := 1023 / q[i]
			if L > 6 {
				L = 6
			}
			m := rapid.IntRange(-L, L).Draw(t, fmt.Sprintf("%s_m%d", label, i))
			s := rapid.IntRange(-1, 1).Draw(t, fmt.Sprintf("%s_s%d", label, i))
			c := m*q[i] + s*(q[i]/2)
			if c < -1023 || c > 1023 {
				c = m * q[i]
			}
			b[i] = c
		}
	case k <= 15: // all zero
	case k <= 17: // DC only
		b[0] = genDC(t, label)
	default: // only the last zig-zag coefficient
		b[zz[63]] = genAC(t, label+"_last")
		b[0] = genDC(t, label)
	}
	return b
}

func genInvalidBlock(t *rapid.T, label string, tables [][]int) []int {
	b := genValidBlock(t, label+"_base", tables)
	if rapid.IntRange(0, 2).Draw(t, label+"_where") == 0 {
		b[0] = rapid.SampledFrom([]int{1024, -1025, 2047, -2048, 32767, -32768}).Draw(t, label+"_baddc")
	} else {
		b[rapid.IntRange(1, 63).Draw(t, label+"_pos")] = rapid.SampledFrom([]int{1024, -1024, -1025, 2047, 32767, -32768}).Draw(t, label+"_badac")
	}
	return b
}

// ---------------------------------------------------------------- histories

var edgeDims = []int{1, 2, 7, 8, 9, 15, 16, 17, 31, 32, 33, 255, 256, 257, 4095, 4096, 4097, 32767, 32768, 65519, 65520, 65521, 65527, 65528, 65529, 65534, 65535}

func genDim(t *rapid.T, label string) int {
	return rapid.OneOf(rapid.SampledFrom(edgeDims), rapid.IntRange(1, 65535)).Draw(t, label)
}

type encGen struct {
	t        *rapid.T
	c        *Case
	nValid   int   // pool[0:nValid] are valid blocks
	invalid  []int // pool indices of invalid blocks
	qValid   []int
	qInvalid []int
	ops      []Op
	n        int
}

func (g *encGen) label(s string) string { g.n++; return fmt.Sprintf("%s%d", s, g.n) }

func (g *encGen) mcu(n int) []int {
	return rapid.SliceOfN(rapid.IntRange(0, g.nValid-1), n, n).Draw(g.t, g.label("mcu"))
}

func (g *encGen) validAdds(colorType, count int) {
	if count <= 0 {
		return
	}
	if count <= 10 {
		for i := 0; i < count; i++ {
			g.ops = append(g.ops, Op{K: "add", N: colorType, B: g.mcu(colorType)})
		}
		return
	}
	parts := rapid.IntRange(1, 3).Draw(g.t, g.label("parts"))
	for p := 0; p < parts && count > 0; p++ {
		n := count
		if p < parts-1 {
			n = rapid.IntRange(1, count).Draw(g.t, g.label("part"))
		}
		g.ops = append(g.ops, Op{K: "add", N: colorType, B: g.mcu(colorType), Rep: n,
			Stride: rapid.IntRange(0, 5).Draw(g.t, g.label("stride")), Mod: g.nValid})
		count -= n
	}
}

func otherN(colorType int, pick int) int {
	o := []int{1, 3, 6}
	var r []int
	for _, v := range o {
		if v != colorType {
			r = append(r, v)
		}
	}
	return r[pick%2]
}

func (g *encGen) followUps(colorType int) {
	k := rapid.IntRange(1, 3).Draw(g.t, g.label("follow"))
	for i := 0; i < k; i++ {
		switch rapid.IntRange(0, 5).Draw(g.t, g.label("fkind")) {
		case 0:
			n := otherN(colorType, i)
			g.ops = append(g.ops, Op{K: "add", N: n, B: g.mcu(n)})
		case 1:
			if len(g.invalid) > 0 {
				b := g.mcu(colorType)
				b[0] = g.invalid[0]
				g.ops = append(g.ops, Op{K: "add", N: colorType, B: b})
				continue
			}
			fallthrough
		default:
			g.ops = append(g.ops, Op{K: "add", N: colorType, B: g.mcu(colorType)})
		}
	}
}

func (g *encGen) resetOp(colorType, w, h int) Op {
	op := Op{K: "reset", Color: colorType, W: w, H: h}
	switch k := rapid.IntRange(0, 9).Draw(g.t, g.label("opt")); {
	case k == 0:
		op.Opt = 0
	case k == 1:
		op.Opt = 1
	default:
		op.Opt = 2
		op.Q0 = g.qValid[rapid.IntRange(0, len(g.qValid)-1).Draw(g.t, g.label("q0"))]
		op.Q1 = g.qValid[rapid.IntRange(0, len(g.qValid)-1).Draw(g.t, g.label("q1"))]
	}
	return op
}

func (g *encGen) smallDims(colorType int) (w, h, need int) {
	m := 8
	if colorType == 6 {
		m = 16
	}
	var total int
	switch k := rapid.IntRange(0, 999).Draw(g.t, g.label("sizeclass")); {
	case k < 600:
		total = rapid.IntRange(1, 6).Draw(g.t, g.label("total"))
	case k < 950:
		total = rapid.IntRange(7, 40).Draw(g.t, g.label("total"))
	case k < 997:
		total = rapid.IntRange(41, 400).Draw(g.t, g.label("total"))
	default:
		total = rapid.IntRange(401, 4096).Draw(g.t, g.label("total"))
	}
	mx := rapid.IntRange(1, total).Draw(g.t, g.label("mx"))
	my := total / mx
	pick := func(n int, l string) int {
		off := rapid.OneOf(rapid.SampledFrom([]int{1, m - 1, m}), rapid.IntRange(1, m)).Draw(g.t, g.label(l))
		return (n-1)*m + off
	}
	w, h = pick(mx, "w"), pick(my, "h")
	if w > 65535 {
		w = 65535
	}
	if h > 65535 {
		h = 65535
	}
	return w, h, needMCUs(colorType, w, h)
}

func (g *encGen) image(first bool) {
	t := g.t
	colorType := rapid.SampledFrom([]int{1, 3, 6}).Draw(t, g.label("color"))
	plan := rapid.IntRange(0, 99).Draw(t, g.label("plan"))
	switch {
	case plan < 50: // complete
		w, h, need := g.smallDims(colorType)
		g.ops = append(g.ops, g.resetOp(colorType, w, h))
		g.validAdds(colorType, need)
	case plan < 58: // too many
		w, h, need := g.smallDims(colorType)
		g.ops = append(g.ops, g.resetOp(colorType, w, h))
		g.validAdds(colorType, need)
		extra := g.mcu(colorType)
		if len(g.invalid) > 0 && rapid.IntRange(0, 3).Draw(t, g.label("extrabad")) == 0 {
			extra[0] = g.invalid[0] // too many AND an invalid block: either error is acceptable
		}
		g.ops = append(g.ops, Op{K: "add", N: colorType, B: extra})
		g.followUps(colorType)
	case plan < 68: // too few, full range of dimensions
		w, h := genDim(t, g.label("w")), genDim(t, g.label("h"))
		need := needMCUs(colorType, w, h)
		g.ops = append(g.ops, g.resetOp(colorType, w, h))
		k := rapid.IntRange(0, 6).Draw(t, g.label("few"))
		if k >= need {
			k = need - 1
		}
		g.validAdds(colorType, k)
	case plan < 74: // wrong N
		w, h := genDim(t, g.label("w")), genDim(t, g.label("h"))
		g.ops = append(g.ops, g.resetOp(colorType, w, h))
		k := rapid.IntRange(0, 3).Draw(t, g.label("before"))
		if need := needMCUs(colorType, w, h); k > need {
			k = need
		}
		g.validAdds(colorType, k)
		n := otherN(colorType, rapid.IntRange(0, 1).Draw(t, g.label("other")))
		g.ops = append(g.ops, Op{K: "add", N: n, B: g.mcu(n)})
		g.followUps(colorType)
	case plan < 81 && len(g.invalid) > 0: // invalid block
		w, h := genDim(t, g.label("w")), genDim(t, g.label("h"))
		g.ops = append(g.ops, g.resetOp(colorType, w, h))
		k := rapid.IntRange(0, 3).Draw(t, g.label("before"))
		if need := needMCUs(colorType, w, h); k >= need {
			k = need - 1
		}
		g.validAdds(colorType, k)
		b := g.mcu(colorType)
		b[rapid.IntRange(0, colorType-1).Draw(t, g.label("badpos"))] = g.invalid[rapid.IntRange(0, len(g.invalid)-1).Draw(t, g.label("bad"))]
		g.ops = append(g.ops, Op{K: "add", N: colorType, B: b})
		g.followUps(colorType)
	case plan < 83: // nil argument
		w, h := genDim(t, g.label("w")), genDim(t, g.label("h"))
		g.ops = append(g.ops, g.resetOp(colorType, w, h))
		g.ops = append(g.ops, Op{K: "add", N: colorType, Nil: true})
		g.followUps(colorType)
	case plan < 86: // failing writer in Reset
		w, h := genDim(t, g.label("w")), genDim(t, g.label("h"))
		op := g.resetOp(colorType, w, h)
		op.Fail = rapid.IntRange(1, 2).Draw(t, g.label("fail"))
		g.ops = append(g.ops, op)
		g.followUps(colorType)
	case plan < 91: // failing writer in AddN
		w, h, need := g.smallDims(colorType)
		g.ops = append(g.ops, g.resetOp(colorType, w, h))
		k := rapid.IntRange(0, need-1).Draw(t, g.label("before"))
		if k > 12 {
			k = 12
		}
		g.validAdds(colorType, k)
		g.ops = append(g.ops, Op{K: "add", N: colorType, B: g.mcu(colorType), Fail: rapid.IntRange(1, 2).Draw(t, g.label("fail"))})
		g.followUps(colorType)
	case plan < 95: // invalid Reset arguments
		w, h := genDim(t, g.label("w")), genDim(t, g.label("h"))
		bad := []int{0, -1, -8, 65536, 65537, 1 << 20, -65535, 1 << 31, 1<<31 - 1, -(1 << 31), 1 << 40}
		switch rapid.IntRange(0, 3).Draw(t, g.label("which")) {
		case 0:
			w = rapid.SampledFrom(bad).Draw(t, g.label("badw"))
		case 1:
			h = rapid.SampledFrom(bad).Draw(t, g.label("badh"))
		case 2:
			w = rapid.SampledFrom(bad).Draw(t, g.label("badw"))
			h = rapid.SampledFrom(bad).Draw(t, g.label("badh"))
		default:
			colorType = rapid.SampledFrom([]int{0, 2, 4, 5, 7, 8, 12, 255}).Draw(t, g.label("badcolor"))
		}
		g.ops = append(g.ops, g.resetOp(colorType, w, h))
		n := colorType
		if !validColor(n) {
			n = 1
		}
		g.followUps(n)
	case plan < 98 && len(g.qInvalid) > 0: // a zero quantisation factor
		w, h := genDim(t, g.label("w")), genDim(t, g.label("h"))
		op := g.resetOp(colorType, w, h)
		op.Opt = 2
		bad := g.qInvalid[rapid.IntRange(0, len(g.qInvalid)-1).Draw(t, g.label("badq"))]
		good := g.qValid[rapid.IntRange(0, len(g.qValid)-1).Draw(t, g.label("goodq"))]
		switch rapid.IntRange(0, 2).Draw(t, g.label("whichq")) {
		case 0:
			op.Q0, op.Q1 = bad, good
		case 1:
			op.Q0, op.Q1 = good, bad
		default:
			op.Q0, op.Q1 = bad, bad
		}
		g.ops = append(g.ops, op)
		g.followUps(colorType)
	case first && plan == 98: // AddN before any Reset
		g.followUps(colorType)
	default: // allocation measurement / nil receiver, then a complete image
		if rapid.IntRange(0, 3).Draw(t, g.label("nilrecv")) == 0 {
			g.ops = append(g.ops, Op{K: "nilrecv"})
		}
		w, h, _ := g.smallDims(colorType)
		op := g.resetOp(colorType, w, h)
		op.K = "alloc"
		op.B = g.mcu(6)
		g.ops = append(g.ops, op)
	}
}

func genEncCase(t *rapid.T) Case {
	c := Case{Kind: "enc"}
	g := &encGen{t: t, c: &c}
	nq := rapid.IntRange(1, 3).Draw(t, "nquants")
	var validTables [][]int
	for i := 0; i < nq; i++ {
		q := genQuant(t, fmt.Sprintf("q%d", i), false)
		g.qValid = append(g.qValid, len(c.Quants))
		c.Quants = append(c.Quants, q)
		validTables = append(validTables, q)
	}
	if rapid.IntRange(0, 3).Draw(t, "badquant") == 0 {
		g.qInvalid = append(g.qInvalid, len(c.Quants))
		c.Quants = append(c.Quants, genQuant(t, "qbad", true))
	}
	g.nValid = rapid.IntRange(2, 8).Draw(t, "nvalid")
	for i := 0; i < g.nValid; i++ {
		c.Pool = append(c.Pool, genValidBlock(t, fmt.Sprintf("b%d", i), validTables))
	}
	if rapid.IntRange(0, 2).Draw(t, "badblocks") == 0 {
		n := rapid.IntRange(1, 2).Draw(t, "nbad")
		for i := 0; i < n; i++ {
			g.invalid = append(g.invalid, len(c.Pool))
			c.Pool = append(c.Pool, genInvalidBlock(t, fmt.Sprintf("bad%d", i), validTables))
		}
	}
	images := rapid.IntRange(1, 3).Draw(t, "images")
	for i := 0; i < images; i++ {
		g.image(i == 0)
	}
	c.Ops = g.ops
	return c
}
