package c18

// An independent baseline-JPEG (ITU-T T.81, SOF0) parser and entropy decoder,
// written for this harness. It shares no code or table with lib/lowleveljpeg:
// the zig-zag order is computed, Huffman decoding uses the tables found in the
// file's own DHT segments, quantisation tables come from the file's DQT.

import (
	"errors"
	"fmt"
)

// zz[k] is the natural (8*row+col) index of the k-th coefficient in zig-zag order.
var zz [64]int

func init() {
	r, c, up := 0, 0, true
	for k := 0; k < 64; k++ {
		zz[k] = 8*r + c
		if up {
			if c == 7 {
				r++
				up = false
			} else if r == 0 {
				c++
				up = false
			} else {
				r--
				c++
			}
		} else {
			if r == 7 {
				c++
				up = true
			} else if c == 0 {
				r++
				up = true
			} else {
				r++
				c--
			}
		}
	}
	seen := [64]bool{}
	for _, v := range zz {
		if seen[v] {
			panic("zigzag is not a permutation")
		}
		seen[v] = true
	}
	if zz[1] != 1 || zz[2] != 8 || zz[3] != 16 || zz[63] != 63 || zz[62] != 62 || zz[35] != 56 {
		panic("zigzag construction is wrong")
	}
}

type hdrComp struct {
	id, h, v, tq int
	td, ta       int
}

type huffTab struct {
	count [17]int
	vals  []int
	first [17]int // first code of each length
	off   [17]int // index into vals of the first code of each length
}

type header struct {
	width, height int
	comps         []hdrComp
	qt            [4]*[64]int // natural order
	dc, ac        [4]*huffTab
	scanStart     int // offset of the first entropy-coded byte
	segments      []byte
}

func buildHuff(counts []byte, vals []byte) (*huffTab, error) {
	t := &huffTab{}
	code, k := 0, 0
	kraft := 0
	seen := [256]bool{}
	for l := 1; l <= 16; l++ {
		n := int(counts[l-1])
		t.count[l] = n
		t.first[l] = code
		t.off[l] = k
		kraft += n << (16 - l)
		if code+n > 1<<l {
			return nil, fmt.Errorf("DHT: more codes of length %d than fit", l)
		}
		code += n
		k += n
		code <<= 1
	}
	if kraft > 65535 {
		return nil, fmt.Errorf("DHT: code is over-subscribed or uses the reserved all-ones code word (Kraft sum %d/65536)", kraft)
	}
	if k != len(vals) {
		return nil, fmt.Errorf("DHT: %d values for %d codes", len(vals), k)
	}
	for _, v := range vals {
		if seen[v] {
			return nil, fmt.Errorf("DHT: symbol 0x%02X listed twice", v)
		}
		seen[v] = true
		t.vals = append(t.vals, int(v))
	}
	return t, nil
}

// parseHeader parses everything up to and including the SOS header.
func parseHeader(data []byte) (*header, error) {
	if len(data) < 2 || data[0] != 0xFF || data[1] != 0xD8 {
		return nil, errors.New("file does not start with SOI")
	}
	h := &header{}
	pos := 2
	sof := false
	for {
		if pos+2 > len(data) {
			return nil, fmt.Errorf("header truncated at offset %d (no SOS yet)", pos)
		}
		if data[pos] != 0xFF {
			return nil, fmt.Errorf("expected a marker at offset %d, found 0x%02X", pos, data[pos])
		}
		m := data[pos+1]
		if m == 0xFF { // fill byte
			pos++
			continue
		}
		switch {
		case m == 0xDB || m == 0xC0 || m == 0xC4 || m == 0xDA || m == 0xDD || m == 0xFE || (m >= 0xE0 && m <= 0xEF):
		default:
			return nil, fmt.Errorf("marker 0xFF%02X at offset %d is not allowed in a single-scan baseline JPEG header", m, pos)
		}
		if pos+4 > len(data) {
			return nil, fmt.Errorf("segment 0xFF%02X truncated at offset %d", m, pos)
		}
		L := int(data[pos+2])<<8 | int(data[pos+3])
		if L < 2 || pos+2+L > len(data) {
			return nil, fmt.Errorf("segment 0xFF%02X at offset %d: length %d overruns the data (%d bytes)", m, pos, L, len(data))
		}
		seg := data[pos+4 : pos+2+L]
		h.segments = append(h.segments, m)
		switch {
		case m == 0xDB: // DQT
			if len(seg) == 0 {
				return nil, errors.New("empty DQT")
			}
			for len(seg) > 0 {
				pq, tq := int(seg[0]>>4), int(seg[0]&15)
				if pq != 0 {
					return nil, fmt.Errorf("DQT: precision %d is not baseline (must be 8-bit)", pq)
				}
				if tq > 3 {
					return nil, fmt.Errorf("DQT: bad table id %d", tq)
				}
				if len(seg) < 65 {
					return nil, errors.New("DQT: truncated table")
				}
				t := &[64]int{}
				for k := 0; k < 64; k++ {
					if seg[1+k] == 0 {
						return nil, fmt.Errorf("DQT: table %d has a zero entry at zig-zag index %d", tq, k)
					}
					t[zz[k]] = int(seg[1+k])
				}
				h.qt[tq] = t
				seg = seg[65:]
			}
		case m == 0xC0: // SOF0
			if sof {
				return nil, errors.New("two SOF segments")
			}
			sof = true
			if len(seg) < 6 {
				return nil, errors.New("SOF0 too short")
			}
			if seg[0] != 8 {
				return nil, fmt.Errorf("SOF0: sample precision %d, baseline needs 8", seg[0])
			}
			h.height = int(seg[1])<<8 | int(seg[2])
			h.width = int(seg[3])<<8 | int(seg[4])
			nf := int(seg[5])
			if h.height == 0 || h.width == 0 {
				return nil, fmt.Errorf("SOF0: zero dimension %dx%d", h.width, h.height)
			}
			if nf < 1 || nf > 4 || len(seg) != 6+3*nf {
				return nil, fmt.Errorf("SOF0: %d components but payload length %d", nf, len(seg)+2)
			}
			for i := 0; i < nf; i++ {
				c := hdrComp{id: int(seg[6+3*i]), h: int(seg[7+3*i] >> 4), v: int(seg[7+3*i] & 15), tq: int(seg[8+3*i]), td: -1, ta: -1}
				if c.h < 1 || c.h > 4 || c.v < 1 || c.v > 4 || c.tq > 3 {
					return nil, fmt.Errorf("SOF0: component %d has sampling %dx%d, table %d", c.id, c.h, c.v, c.tq)
				}
				for _, o := range h.comps {
					if o.id == c.id {
						return nil, fmt.Errorf("SOF0: duplicate component id %d", c.id)
					}
				}
				h.comps = append(h.comps, c)
			}
		case m == 0xC4: // DHT
			if len(seg) == 0 {
				return nil, errors.New("empty DHT")
			}
			for len(seg) > 0 {
				tc, th := int(seg[0]>>4), int(seg[0]&15)
				if tc > 1 || th > 1 {
					return nil, fmt.Errorf("DHT: class %d id %d is not baseline", tc, th)
				}
				if len(seg) < 17 {
					return nil, errors.New("DHT: truncated counts")
				}
				n := 0
				for _, c := range seg[1:17] {
					n += int(c)
				}
				if n > 256 || len(seg) < 17+n {
					return nil, errors.New("DHT: truncated values")
				}
				t, err := buildHuff(seg[1:17], seg[17:17+n])
				if err != nil {
					return nil, err
				}
				if tc == 0 {
					h.dc[th] = t
				} else {
					h.ac[th] = t
				}
				seg = seg[17+n:]
			}
		case m == 0xDD: // DRI
			if len(seg) != 2 {
				return nil, errors.New("DRI: bad length")
			}
			if seg[0] != 0 || seg[1] != 0 {
				return nil, errors.New("DRI with a non-zero restart interval (not supported by this reference decoder)")
			}
		case m == 0xDA: // SOS
			if !sof {
				return nil, errors.New("SOS before SOF0")
			}
			if len(seg) < 1 {
				return nil, errors.New("SOS too short")
			}
			ns := int(seg[0])
			if len(seg) != 1+2*ns+3 {
				return nil, fmt.Errorf("SOS: %d components but payload length %d", ns, len(seg)+2)
			}
			if ns != len(h.comps) {
				return nil, fmt.Errorf("SOS: scan has %d components, frame has %d (a single interleaved scan is required)", ns, len(h.comps))
			}
			for i := 0; i < ns; i++ {
				cs, td, ta := int(seg[1+2*i]), int(seg[2+2*i]>>4), int(seg[2+2*i]&15)
				if cs != h.comps[i].id {
					return nil, fmt.Errorf("SOS: component %d is id %d, frame order says %d", i, cs, h.comps[i].id)
				}
				if td > 1 || ta > 1 {
					return nil, fmt.Errorf("SOS: table selectors %d/%d are not baseline", td, ta)
				}
				if h.dc[td] == nil || h.ac[ta] == nil {
					return nil, fmt.Errorf("SOS: component %d selects undefined Huffman tables %d/%d", cs, td, ta)
				}
				if h.qt[h.comps[i].tq] == nil {
					return nil, fmt.Errorf("component %d selects undefined quantisation table %d", cs, h.comps[i].tq)
				}
				h.comps[i].td, h.comps[i].ta = td, ta
			}
			if seg[1+2*ns] != 0 || seg[2+2*ns] != 63 || seg[3+2*ns] != 0 {
				return nil, fmt.Errorf("SOS: Ss=%d Se=%d AhAl=0x%02X, baseline needs 0, 63, 0", seg[1+2*ns], seg[2+2*ns], seg[3+2*ns])
			}
			h.scanStart = pos + 2 + L
			return h, nil
		}
		pos += 2 + L
	}
}

var errShort = errors.New("entropy-coded data ends")

type bitReader struct {
	data    []byte
	pos     int
	acc     int
	n       int
	stuffed int
}

func (b *bitReader) bit() (int, error) {
	if b.n == 0 {
		if b.pos >= len(b.data) {
			return 0, errShort
		}
		c := b.data[b.pos]
		if c == 0xFF {
			if b.pos+1 >= len(b.data) {
				return 0, errShort
			}
			if b.data[b.pos+1] != 0x00 {
				return 0, fmt.Errorf("marker 0xFF%02X inside the entropy-coded data at offset %d (missing byte stuffing or too few MCUs)", b.data[b.pos+1], b.pos)
			}
			b.pos += 2
			b.stuffed++
		} else {
			b.pos++
		}
		b.acc = int(c)
		b.n = 8
	}
	b.n--
	return (b.acc >> b.n) & 1, nil
}

func (b *bitReader) bits(n int) (int, error) {
	v := 0
	for i := 0; i < n; i++ {
		x, err := b.bit()
		if err != nil {
			return 0, err
		}
		v = v<<1 | x
	}
	return v, nil
}

func (b *bitReader) huff(t *huffTab) (int, error) {
	code := 0
	for l := 1; l <= 16; l++ {
		x, err := b.bit()
		if err != nil {
			return 0, err
		}
		code = code<<1 | x
		if d := code - t.first[l]; d >= 0 && d < t.count[l] {
			return t.vals[t.off[l]+d], nil
		}
	}
	return 0, fmt.Errorf("invalid Huffman code before offset %d", b.pos)
}

func extend(v, s int) int {
	if s == 0 {
		return 0
	}
	if v < 1<<(s-1) {
		return v - (1 << s) + 1
	}
	return v
}

type scanStats struct {
	zrl      bool // a ZRL (16 zeros) symbol was decoded
	maxCat   int  // largest SSSS over DC and AC
	stuffed  int  // number of 0xFF 0x00 pairs
	eob      int
	fullBlk  int // blocks whose 63rd AC coefficient is non-zero (no EOB)
	maxRun   int
	blocksIn int
}

type scanResult struct {
	perMCU int
	mcus   int // completely decoded MCUs
	total  int // MCUs the frame header asks for
	end    int // offset just after the entropy-coded data (complete mode)
	padOK  bool
	st     scanStats
}

// mcuLayout returns, for each block of an MCU in stream order, its component.
func (h *header) mcuLayout() (comp []int, total int) {
	if len(h.comps) == 1 {
		return []int{0}, ((h.width + 7) / 8) * ((h.height + 7) / 8)
	}
	hmax, vmax := 1, 1
	for _, c := range h.comps {
		if c.h > hmax {
			hmax = c.h
		}
		if c.v > vmax {
			vmax = c.v
		}
	}
	for i, c := range h.comps {
		for k := 0; k < c.h*c.v; k++ {
			comp = append(comp, i)
		}
	}
	mw, mh := 8*hmax, 8*vmax
	return comp, ((h.width + mw - 1) / mw) * ((h.height + mh - 1) / mh)
}

// decodeScan decodes the scan (in partial mode: at most limit MCUs). In complete mode (partial == false) it
// wants exactly the frame's MCU count and checks padding; in partial mode it
// stops silently where the data ends. Every completely decoded MCU (blocks in
// stream order, coefficients in natural order) is handed to onMCU.
func decodeScan(data []byte, h *header, partial bool, limit int, onMCU func(m int, blocks [][64]int16) error) (*scanResult, error) {
	layout, total := h.mcuLayout()
	res := &scanResult{perMCU: len(layout), total: total}
	br := &bitReader{data: data, pos: h.scanStart}
	pred := make([]int, len(h.comps))
	mcu := make([][64]int16, 0, len(layout))
	for m := 0; m < total && !(partial && m >= limit); m++ {
		mcu = mcu[:0]
		var st scanStats = res.st
		short := false
		for _, ci := range layout {
			c := &h.comps[ci]
			var blk [64]int16
			t, err := br.huff(h.dc[c.td])
			if err == nil && t > 11 {
				err = fmt.Errorf("DC category %d > 11 in MCU %d", t, m)
			}
			var v int
			if err == nil {
				v, err = br.bits(t)
			}
			if err == nil {
				if t > st.maxCat {
					st.maxCat = t
				}
				pred[ci] += extend(v, t)
				if pred[ci] < -32768 || pred[ci] > 32767 {
					err = fmt.Errorf("DC value %d out of range in MCU %d", pred[ci], m)
				}
				blk[0] = int16(pred[ci])
			}
			for k := 1; err == nil && k < 64; {
				var rs int
				rs, err = br.huff(h.ac[c.ta])
				if err != nil {
					break
				}
				r, s := rs>>4, rs&15
				if s == 0 {
					if r == 15 {
						k += 16
						st.zrl = true
						if k > 64 {
							err = fmt.Errorf("ZRL runs past the end of the block in MCU %d", m)
						}
						continue
					}
					if r != 0 {
						err = fmt.Errorf("AC symbol 0x%02X (EOBn) is not allowed in a baseline scan, MCU %d", rs, m)
						break
					}
					st.eob++
					break
				}
				if s > 10 {
					err = fmt.Errorf("AC category %d > 10 in MCU %d", s, m)
					break
				}
				k += r
				if k > 63 {
					err = fmt.Errorf("AC run-length passes the end of the block in MCU %d", m)
					break
				}
				v, err = br.bits(s)
				if err != nil {
					break
				}
				if s > st.maxCat {
					st.maxCat = s
				}
				blk[zz[k]] = int16(extend(v, s))
				if k == 63 {
					st.fullBlk++
				}
				k++
			}
			if err == errShort && partial {
				short = true
				break
			}
			if err != nil {
				if err == errShort {
					err = fmt.Errorf("entropy-coded data ends inside MCU %d of %d", m, total)
				}
				return res, err
			}
			mcu = append(mcu, blk)
		}
		if short {
			break
		}
		res.st = st
		if err := onMCU(m, mcu); err != nil {
			return res, err
		}
		res.mcus++
	}
	res.st.stuffed = br.stuffed
	res.end = br.pos
	res.padOK = br.acc&(1<<br.n-1) == 1<<br.n-1
	return res, nil
}
