// Package c05 decides property C05 for the standard library: coroutine
// results do not depend on where the I/O streams are split. (The generated-
// program half of C05 lives with the E2 engine.)
package c05

import (
	"bytes"
	"encoding/json"
	"fmt"
	"strings"
	"sync"
	"testing"

	"pgregory.net/rapid"

	"verif/internal/ev"
	"verif/stdgen"
	"verif/stdh"
	"verif/stdrun"
)

func TestMain(m *testing.M) { ev.Main(m) }

// Case is one replayable comparison: payload decoded one-shot and under Plan.
type Case struct {
	Kind    string      `json:"kind"`
	Payload []byte      `json:"payload"`
	Plan    stdgen.Plan `json:"plan"`
	Opts    stdrun.Opts `json:"opts"`
	Source  string      `json:"source"`
}

func maxFile() int {
	if ev.Thorough() {
		return 64 << 10
	}
	return 16 << 10
}

func genInput(t *rapid.T, k stdh.Kind) ([]byte, string, [][2]uint64) {
	pkg := k.Pkg()
	c := stdgen.LoadCorpus(ev.RepoRoot())
	files := c.Small(pkg, maxFile())
	src := rapid.IntRange(0, 9).Draw(t, "source")
	var base []byte
	var quirks [][2]uint64
	desc := ""
	if src >= 5 {
		switch pkg {
		case "deflate", "zlib", "gzip", "lzw":
			// mostly small payloads (many calls per byte); one in four may exceed the 32 KiB history window
			pmax, big := 5000, ""
			if rapid.IntRange(0, 3).Draw(t, "bigpayload") == 0 {
				pmax, big = 90000, "+big"
			}
			for i := 0; i < 8; i++ {
				pl := stdgen.Payload(t, "pl", pmax)
				if big != "" && i == 0 {
					switch rapid.IntRange(0, 3).Draw(t, "bigkind") {
					case 0:
						pl = stdgen.Book(t, "book", 33000, pmax)
					case 1, 2:
						pl = stdgen.Straddle(t, "straddle", pmax)
					}
				}
				e := stdgen.Compressed(t, pl, "enc")
				if e.Pkg == pkg {
					base, desc, quirks = e.Data, "encoded:"+e.Pkg+big, e.Quirks
					break
				}
			}
		case "png":
			m, model := stdgen.Image(t, "img", 32)
			base, desc = stdgen.PNG(t, m, "png"), "image/png:"+model
		case "gif":
			b, _ := stdgen.GIF(t, "gif", 20)
			base, desc = b, "image/gif"
		case "jpeg":
			m, model := stdgen.Image(t, "img", 32)
			base, desc = stdgen.JPEG(t, m, "jpg"), "image/jpeg:"+model
		case "bmp":
			m, model := stdgen.Image(t, "img", 32)
			base, desc = stdgen.BMP(m), "x/image/bmp:"+model
		}
	}
	if base == nil && len(files) > 0 {
		f := files[rapid.IntRange(0, len(files)-1).Draw(t, "file")]
		base, desc = f.Data, "corpus:"+f.Name
	}
	if base == nil {
		return rapid.SliceOfN(rapid.Byte(), 0, 200).Draw(t, "raw"), "raw-bytes", nil
	}
	nmut := rapid.SampledFrom([]int{0, 0, 0, 1, 1, 2}).Draw(t, "nmut")
	for i := 0; i < nmut; i++ {
		var name string
		base, name = stdgen.Mutate(t, fmt.Sprintf("m%d", i), pkg, base)
		desc += "+" + name
	}
	return base, desc, quirks
}

func coroutineKinds(env *stdrun.Env) []stdh.Kind {
	var ks []stdh.Kind
	for _, k := range env.Kinds {
		if k.Iface <= stdh.TOK {
			ks = append(ks, k)
		}
	}
	return ks
}

func genCase(t *rapid.T, env *stdrun.Env) Case {
	ks := coroutineKinds(env)
	k := ks[rapid.IntRange(0, len(ks)-1).Draw(t, "kind")]
	payload, desc, quirks := genInput(t, k)
	c := Case{Kind: k.Name, Payload: payload, Source: desc}
	c.Plan = stdgen.DrawPlan(t, "plan", len(payload))
	c.Plan.Closed = true
	if strings.Contains(desc, "+big") && k.Iface == stdh.IOT && rapid.Bool().Draw(t, "ringplan") {
		// more than a history window of output: flushed destination windows that divide (or nearly divide) 32 KiB
		c.Plan.DstMode = 2
		c.Plan.DstStep = uint32(rapid.SampledFrom([]int{512, 1024, 4096, 8192, 16384, 32768, 4095, 16385}).Draw(t, "ringstep"))
	}
	if k.Pkg() == "netpbm" && strings.Contains(desc, "+") {
		// known finding S4: corrupted netpbm files are not split (a truncated pixel stream decodes "ok" in small pieces)
		ev.Excluded("S4-netpbm-corrupted-input-not-split")
		c.Plan.SrcMode, c.Plan.SrcChunk, c.Plan.SrcList, c.Plan.LateClose = 0, 0, nil, false
		c.Plan.DstMode, c.Plan.DstStep = 0, 0
	}
	if c.Plan.Trivial() && !(k.Pkg() == "netpbm" && strings.Contains(desc, "+")) {
		c.Plan.SrcMode, c.Plan.SrcChunk = 1, 1
		if len(payload) > 3000 {
			c.Plan.SrcChunk = uint32(len(payload) / 1500)
		}
	}
	c.Opts.Quirks = quirks
	c.Opts.PixFmt = uint32(rapid.SampledFrom([]int{0, 0, 1, 0x81008888}).Draw(t, "pixfmt"))
	c.Opts.Seed = uint64(rapid.Uint32().Draw(t, "seed"))
	return c
}

var (
	baseMu    sync.Mutex
	baseCache = map[uint64]*stdh.Resp{}
)

func baseline(env *stdrun.Env, k stdh.Kind, c Case) (*stdh.Resp, error) {
	key := ev.Hash(c.Kind, c.Payload, fmt.Sprint(c.Opts.Quirks, c.Opts.PixFmt))
	baseMu.Lock()
	if r, ok := baseCache[key]; ok {
		baseMu.Unlock()
		return r, nil
	}
	baseMu.Unlock()
	o := c.Opts
	o.Seed = 1
	r, err := env.Run("san", k, c.Payload, stdgen.OneShot, o)
	if err == nil {
		baseMu.Lock()
		if len(baseCache) > 512 {
			baseCache = map[uint64]*stdh.Resp{}
		}
		baseCache[key] = r
		baseMu.Unlock()
	}
	return r, err
}

func isError(s string) bool { return s != "" && s[0] == '#' }

func compare(k stdh.Kind, a, b *stdh.Resp) string {
	if a.Final != b.Final {
		return fmt.Sprintf("final status: one-shot %q, chunked %q", a.Final, b.Final)
	}
	if !isError(a.Final) && a.Consumed != b.Consumed {
		return fmt.Sprintf("consumed bytes: one-shot %d, chunked %d (final status %q)", a.Consumed, b.Consumed, a.Final)
	}
	switch k.Iface {
	case stdh.IOT:
		if !bytes.Equal(a.Out, b.Out) {
			i := 0
			for i < len(a.Out) && i < len(b.Out) && a.Out[i] == b.Out[i] {
				i++
			}
			return fmt.Sprintf("output bytes differ: one-shot %d bytes, chunked %d bytes, first difference at %d", len(a.Out), len(b.Out), i)
		}
	case stdh.IMG:
		if a.HaveImage != b.HaveImage || a.W != b.W || a.H != b.H || a.NativeFmt != b.NativeFmt || a.FirstFrameIOPos != b.FirstFrameIOPos || a.FirstOpaque != b.FirstOpaque {
			return fmt.Sprintf("image config differs: one-shot %v %dx%d fmt %x, chunked %v %dx%d fmt %x", a.HaveImage, a.W, a.H, a.NativeFmt, b.HaveImage, b.W, b.H, b.NativeFmt)
		}
		if len(a.Frames) != len(b.Frames) {
			return fmt.Sprintf("frame count differs: one-shot %d, chunked %d", len(a.Frames), len(b.Frames))
		}
		for i := range a.Frames {
			fa, fb := a.Frames[i], b.Frames[i]
			fa.Pix, fb.Pix = nil, nil
			if fmt.Sprintf("%+v", fa) != fmt.Sprintf("%+v", fb) {
				return fmt.Sprintf("frame %d differs:\n one-shot %+v\n chunked  %+v", i, fa, fb)
			}
		}
		if a.HavePix != b.HavePix || a.PixHash != b.PixHash {
			return fmt.Sprintf("decoded pixels differ (hash %x vs %x)", a.PixHash, b.PixHash)
		}
	case stdh.TOK:
		if len(a.Tokens) != len(b.Tokens) {
			return fmt.Sprintf("token streams differ in length: one-shot %d, chunked %d", len(a.Tokens), len(b.Tokens))
		}
		for i := range a.Tokens {
			if a.Tokens[i] != b.Tokens[i] {
				return fmt.Sprintf("token %d differs: one-shot %+v, chunked %+v", i, a.Tokens[i], b.Tokens[i])
			}
		}
	}
	return ""
}

func checkCase(env *stdrun.Env, c Case) (msg string, nontrivial bool, classes []string) {
	k, ok := env.Kind(c.Kind)
	if !ok {
		return "", false, []string{"unknown-kind"}
	}
	base, err := baseline(env, k, c)
	if err != nil {
		// a crash of the one-shot run is C03's business; C05 needs a reference result
		return "", false, []string{"baseline-crashed"}
	}
	if base.Final == "$base: short write" || base.GaveUp {
		return "", false, []string{"baseline-inconclusive"}
	}
	resp, err := env.Run("san", k, c.Payload, c.Plan, c.Opts)
	if err != nil {
		if ce, ok := stdh.IsCrash(err); ok {
			return fmt.Sprintf("%s (%s): the one-shot decode completes (%q) but the chunked decode crashed: %v", c.Kind, c.Source, base.Final, ce), false, nil
		}
		return "", false, []string{"harness-error"}
	}
	if resp.GaveUp {
		return "", false, []string{"chunked-gave-up"}
	}
	for _, v := range resp.Violations {
		if bytes.Contains([]byte(v), []byte("$short")) {
			return fmt.Sprintf("%s (%s): unjustified suspension in the chunked run: %s", c.Kind, c.Source, v), false, nil
		}
	}
	if d := compare(k, base, resp); d != "" {
		return fmt.Sprintf("%s (%d bytes, %s) depends on the chunking %+v: %s", c.Kind, len(c.Payload), c.Source, c.Plan, d), false, nil
	}
	classes = append(classes, "iface-"+[]string{"io_transformer", "image_decoder", "token_decoder"}[k.Iface])
	if isError(base.Final) {
		classes = append(classes, "final-error")
	} else {
		classes = append(classes, "final-ok-or-note")
	}
	if resp.NShortRead > 0 {
		classes = append(classes, "resumed-short-read")
	}
	if resp.NShortWrite > 0 {
		classes = append(classes, "resumed-short-write")
	}
	if c.Plan.SrcMode == 2 && len(c.Plan.SrcList) == 2 {
		classes = append(classes, "single-split")
	}
	if c.Plan.SrcMode == 1 && c.Plan.SrcChunk == 1 {
		classes = append(classes, "one-byte-pieces")
	}
	if c.Plan.DstMode == 2 {
		classes = append(classes, "fresh-dst-windows")
	}
	if k.Iface == stdh.IOT && len(base.Out) > 32768 {
		classes = append(classes, "output>32KiB")
		if c.Plan.DstMode == 2 && c.Plan.DstStep >= 512 && c.Plan.DstStep <= 32768 {
			classes = append(classes, "output>32KiB-in-flushed-windows-of-512..32768")
		}
	}
	nontrivial = resp.NShortRead+resp.NShortWrite > 0 && stdrun.Progressed(resp)
	return "", nontrivial, classes
}

func runCase(t interface{ Fatalf(string, ...any) }, env *stdrun.Env, c Case) {
	ev.Eval()
	msg, nt, classes := checkCase(env, c)
	if msg != "" {
		ev.Fail("C05", "std-chunking", c, msg)
		t.Fatalf("C05 violated: %s", msg)
	}
	for _, cl := range classes {
		ev.Class(cl)
	}
	if nt {
		ev.Nontrivial(ev.Hash(c.Kind, c.Payload, fmt.Sprintf("%+v", c.Plan)), func() any {
			s := c
			if len(s.Payload) > 64 {
				s.Payload = s.Payload[:64]
				s.Source += fmt.Sprintf(" (payload truncated in this sample; %d bytes)", len(c.Payload))
			}
			return s
		})
	}
}

func TestProp(t *testing.T) {
	env, err := stdrun.Get()
	if err != nil {
		t.Fatal(err)
	}
	defer env.Close()
	rapid.Check(t, func(t *rapid.T) {
		runCase(t, env, genCase(t, env))
	})
}

// TestPropRing is the std-chunking check restricted to the class in which the
// decoders' history ring buffers wrap: LZ77 decoders (deflate, zlib, gzip, lzw,
// and bzip2 / the lzma family through their tools) given more than a history
// window of output - payloads with planted repeats whose source straddles every
// multiple of 32 KiB, or "books" of repeated lines - through flushed
// destination windows whose size divides (or nearly divides) the window.
func TestPropRing(t *testing.T) {
	env, err := stdrun.Get()
	if err != nil {
		t.Fatal(err)
	}
	defer env.Close()
	rapid.Check(t, func(t *rapid.T) {
		pmax := 90000
		var pl []byte
		if rapid.IntRange(0, 2).Draw(t, "kind") == 0 {
			pl = stdgen.Book(t, "book", 33000, pmax)
		} else {
			pl = stdgen.Straddle(t, "straddle", pmax)
		}
		e := stdgen.Compressed(t, pl, "enc")
		k, ok := env.Kind(e.Pkg + ".decoder")
		if !ok {
			t.Skip("no such kind")
		}
		c := Case{Kind: k.Name, Payload: e.Data, Source: "encoded:" + e.Pkg + "+ring"}
		c.Plan = stdgen.DrawPlan(t, "plan", len(e.Data))
		c.Plan.Closed = true
		c.Plan.DstMode = 2
		c.Plan.DstStep = uint32(rapid.SampledFrom([]int{512, 1024, 2048, 4096, 8192, 16384, 32768, 4095, 4097, 16385, 257, 258, 300}).Draw(t, "ringstep"))
		c.Opts.Quirks = e.Quirks
		runCase(t, env, c)
	})
}

// TestAllSplits enumerates EVERY single split point of the source for small
// real files of every coroutine kind (the property's "every single split
// point" clause), and every destination window size 1..40 for io_transformers.
func TestAllSplits(t *testing.T) {
	env, err := stdrun.Get()
	if err != nil {
		t.Fatal(err)
	}
	defer env.Close()
	c := stdgen.LoadCorpus(ev.RepoRoot())
	limit := 200
	if ev.Thorough() {
		limit = 6000
	}
	shard, nshards := ev.EnvInt("VERIF_SHARD", 0), ev.EnvInt("VERIF_NSHARDS", 1)
	idx := 0
	// every (file, split) pair is one task; tasks are dealt round-robin to the shards
	for _, k := range coroutineKinds(env) {
		for _, f := range c.Small(k.Pkg(), limit) {
			if shard == 0 {
				ev.Class("all-splits-file")
			}
			for split := 0; split <= len(f.Data); split++ {
				idx++
				if idx%nshards != shard {
					continue
				}
				cs := Case{Kind: k.Name, Payload: f.Data, Source: "corpus:" + f.Name,
					Plan: stdgen.Plan{SrcMode: 2, SrcList: []uint32{uint32(split), 1 << 30}, SrcExact: true, Closed: true}}
				runCase(t, env, cs)
			}
			if k.Iface == stdh.IOT {
				for step := uint32(1); step <= 40; step++ {
					idx++
					if idx%nshards != shard {
						continue
					}
					cs := Case{Kind: k.Name, Payload: f.Data, Source: "corpus:" + f.Name,
						Plan: stdgen.Plan{SrcExact: true, Closed: true, DstMode: 2, DstStep: step}}
					runCase(t, env, cs)
				}
			}
		}
	}
}

func TestReplay(t *testing.T) {
	p := ev.ReplayPath()
	if p == "" {
		t.Skip("no VERIF_REPLAY")
	}
	env, err := stdrun.Get()
	if err != nil {
		t.Fatal(err)
	}
	defer env.Close()
	r, err := ev.LoadReplay(p)
	if err != nil {
		t.Fatal(err)
	}
	var c Case
	if err := json.Unmarshal(r.Case, &c); err != nil {
		t.Fatal(err)
	}
	runCase(t, env, c)
}
