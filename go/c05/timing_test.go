package c05

import (
	"fmt"
	"sort"
	"testing"
	"time"

	"pgregory.net/rapid"
	"verif/stdrun"
)

func TestTiming(t *testing.T) {
	env, _ := stdrun.Get()
	defer env.Close()
	type rec struct {
		d time.Duration
		s string
	}
	var recs []rec
	rapid.Check(t, func(t *rapid.T) {
		c := genCase(t, env)
		t0 := time.Now()
		checkCase(env, c)
		recs = append(recs, rec{time.Since(t0), fmt.Sprintf("%s %d %s %+v", c.Kind, len(c.Payload), c.Source, c.Plan)})
	})
	sort.Slice(recs, func(i, j int) bool { return recs[i].d > recs[j].d })
	var tot time.Duration
	for _, r := range recs {
		tot += r.d
	}
	fmt.Println("total", tot, "n", len(recs))
	for _, r := range recs[:15] {
		fmt.Println(r.d, r.s)
	}
}
