// Package stdrun glues stdgen (inputs) and stdh (harness client) together:
// harness processes per build variant, request construction from a Plan and
// Opts, and a uniform result summary used by the std property packages.
package stdrun

import (
	"fmt"
	"os"
	"sync"

	"verif/internal/ev"
	"verif/stdgen"
	"verif/stdh"
)

// Opts are per-run options besides the chunking plan.
type Opts struct {
	Flags     uint32      `json:"flags,omitempty"`
	Prefill   uint8       `json:"prefill,omitempty"`
	Quirks    [][2]uint64 `json:"quirks,omitempty"`
	PixFmt    uint32      `json:"pixfmt,omitempty"`
	Blend     uint8       `json:"blend,omitempty"`
	PixFill   uint8       `json:"pixfill,omitempty"`
	MaxPixels uint32      `json:"max_pixels,omitempty"`
	DstCap    uint32      `json:"dst_cap,omitempty"` // capacity of the destination buffer (0 = 4 MiB)
	Clip      uint8       `json:"clip,omitempty"`    // pixel buffer smaller than the image: 1 one row short, 2 one column short, 3 half, 4 1x1, 5 half the rows
	Dump      uint8       `json:"dump,omitempty"`
	Pure      bool        `json:"pure,omitempty"`
	Seed      uint64      `json:"seed,omitempty"`
	Alarm     int         `json:"alarm,omitempty"`
	MaxCalls  uint32      `json:"max_calls,omitempty"`
	// NoExcluders turns the known-finding excluders off (only the committed
	// reproducers of known findings set it).
	NoExcluders bool `json:"no_excluders,omitempty"`

	xzFilterChain bool // set by Request: the payload is an xz stream whose first block has more than one filter
}

// xzHasFilterChain reports whether an xz payload's first block header declares
// more than one filter (a BCJ or delta filter in front of LZMA2).
func xzHasFilterChain(p []byte) bool {
	return len(p) > 13 && p[0] == 0xFD && p[1] == '7' && p[2] == 'z' && p[13]&3 != 0
}

// LZMAFamily lists the kinds affected by known findings S1-S3: std/lzma (also
// reached through std/lzip and std/xz) manages its LZ history correctly only
// under the discipline upstream's own drivers follow - the destination is
// compacted to dst_history_retain_length after EVERY suspension and the work
// buffer is sized generously in advance:
//
//	S1 output kept in dst across a $short read while older history was dropped
//	   => distances resolved wrongly ("#lzma: bad distance" on a valid stream);
//	S2 xz learns the history size from a block header parsed in the same call
//	   that then suspends => "#base: bad workbuf length" although the buffer had
//	   the size workbuf_len() reported before the call;
//	S3 xz streams with a BCJ filter in front of LZMA2 (seen with the ARM64
//	   filter and the ARM filter with a start offset) fail with "#lzma: bad
//	   distance" when the source arrives in small pieces (1..7 bytes), whatever
//	   the destination discipline; with pieces >= 100 bytes they decode fine.
var LZMAFamily = map[string]bool{"lzma": true, "lzip": true, "xz": true}

// Discipline reports whether the excluder for S1-S3 rewrites the plan of this
// run, and returns the plan actually used.
func Discipline(k stdh.Kind, plan stdgen.Plan, o Opts) (stdgen.Plan, bool) {
	if o.NoExcluders || !LZMAFamily[k.Pkg()] || plan.Trivial() {
		return plan, false
	}
	if o.xzFilterChain {
		// S3: neither side is split for xz filter chains (source pieces of 1..7 bytes
		// and destination windows of 9..18 bytes both make the decode fail)
		plan.SrcMode, plan.SrcChunk, plan.SrcList, plan.LateClose = 0, 0, nil, false
		plan.DstMode, plan.DstStep = 0, 0
		return plan, true
	}
	if plan.DstMode != 2 {
		plan.DstMode = 2
		if plan.DstStep < 1<<16 {
			plan.DstStep = 1 << 16
		}
	}
	// (S2 - work buffer length known too late - is fixed in the tree: the work buffer keeps the drawn mode, i.e.
	// usually exactly workbuf_len().min_incl, re-queried before every call)
	return plan, true
}

// Env holds the harness processes of this test process.
type Env struct {
	mu     sync.Mutex
	procs  map[string]*stdh.Proc
	Kinds  []stdh.Kind
	CPU    stdh.CPU
	byName map[string]stdh.Kind
}

var (
	envOnce sync.Once
	env     *Env
	envErr  error
)

// Get returns the process-wide Env (the san variant must exist).
func Get() (*Env, error) {
	envOnce.Do(func() {
		bin := os.Getenv("STDH_SAN")
		if bin == "" {
			envErr = fmt.Errorf("STDH_SAN is not set (run through check.sh)")
			return
		}
		ks, cpu, err := stdh.List(bin)
		if err != nil {
			envErr = err
			return
		}
		e := &Env{procs: map[string]*stdh.Proc{}, Kinds: ks, CPU: cpu, byName: map[string]stdh.Kind{}}
		for _, k := range ks {
			e.byName[k.Name] = k
		}
		env = e
	})
	return env, envErr
}

// Kind looks a kind up by name ("png.decoder").
func (e *Env) Kind(name string) (stdh.Kind, bool) { k, ok := e.byName[name]; return k, ok }

// KindOfPkg returns the first kind of a package ("png" -> png.decoder).
func (e *Env) KindOfPkg(pkg string) (stdh.Kind, bool) {
	for _, k := range e.Kinds {
		if k.Pkg() == pkg {
			return k, true
		}
	}
	return stdh.Kind{}, false
}

// HasVariant reports whether the build variant is available.
func HasVariant(v string) bool { return os.Getenv("STDH_"+upper(v)) != "" }

func upper(s string) string {
	b := []byte(s)
	for i, c := range b {
		if c >= 'a' && c <= 'z' {
			b[i] = c - 32
		}
	}
	return string(b)
}

func (e *Env) proc(variant string) (*stdh.Proc, error) {
	e.mu.Lock()
	defer e.mu.Unlock()
	if p, ok := e.procs[variant]; ok {
		return p, nil
	}
	bin := os.Getenv("STDH_" + upper(variant))
	if bin == "" {
		return nil, fmt.Errorf("variant %s not built", variant)
	}
	p, err := stdh.Start(bin)
	if err != nil {
		return nil, err
	}
	e.procs[variant] = p
	return p, nil
}

// Request builds the canonical "init + plan + drive" request.
func Request(k stdh.Kind, payload []byte, plan stdgen.Plan, o Opts) []byte {
	alarm := o.Alarm
	if alarm == 0 {
		alarm = 20
	}
	r := stdh.NewReq(k.Index, payload, alarm, o.Seed)
	r.Init(o.Flags, o.Prefill, 0, 0)
	for _, q := range o.Quirks {
		r.Quirk(uint32(q[0]), q[1])
	}
	AppendPlan(r, k, payload, plan, o)
	mc := o.MaxCalls
	if mc == 0 {
		mc = 4 << 20
	}
	r.Drive(mc)
	return r.Bytes()
}

// AppendPlan appends the source / destination / work buffer / pixel / token
// plan ops (after the known-finding excluders have been applied) to a request.
func AppendPlan(r *stdh.Req, k stdh.Kind, payload []byte, plan stdgen.Plan, o Opts) {
	o.xzFilterChain = k.Pkg() == "xz" && xzHasFilterChain(payload)
	plan, disciplined := Discipline(k, plan, o)
	closeMode := uint8(0)
	if plan.Closed {
		closeMode = 1
		if plan.LateClose {
			closeMode = 2
		}
	}
	r.SrcClose(plan.SrcMode, plan.SrcChunk, closeMode, plan.SrcExact, plan.SrcList)
	dcap := o.DstCap
	if dcap == 0 {
		dcap = 1 << 22
	}
	r.Dst(plan.DstMode, dcap, plan.DstStep, plan.DstFill, disciplined)
	r.Work(plan.WorkMode, plan.WorkFill)
	if k.Iface == stdh.IMG {
		r.Pix(o.PixFmt, o.Blend, o.PixFill, o.MaxPixels, o.Dump|o.Clip<<4)
	}
	if plan.TokCap != 0 {
		r.Tok(plan.TokCap)
	}
	if o.Pure {
		r.PureProbe(true)
	}
}

// Exec runs a raw request on a variant; a time-out is retried once with a
// longer alarm by the caller (see RunConfirm).
func (e *Env) Exec(variant string, req []byte) (*stdh.Resp, error) {
	p, err := e.proc(variant)
	if err != nil {
		return nil, err
	}
	return p.Run(req)
}

// Run executes the canonical request. A harness time-out is re-run once with
// a three times longer alarm before it is reported (slow != non-terminating).
func (e *Env) Run(variant string, k stdh.Kind, payload []byte, plan stdgen.Plan, o Opts) (*stdh.Resp, error) {
	o.xzFilterChain = k.Pkg() == "xz" && xzHasFilterChain(payload)
	if _, d := Discipline(k, plan, o); d {
		ev.Excluded("S1-S3-lzma-family-driver-discipline")
		if o.xzFilterChain {
			ev.Excluded("S3-xz-filter-chain-not-split")
		}
	}
	resp, err := e.Exec(variant, Request(k, payload, plan, o))
	if ce, ok := stdh.IsCrash(err); ok && ce.Timeout {
		o2 := o
		if o2.Alarm == 0 {
			o2.Alarm = 20
		}
		o2.Alarm *= 3
		resp, err = e.Exec(variant, Request(k, payload, plan, o2))
	}
	return resp, err
}

// Close stops all harness processes.
func (e *Env) Close() {
	e.mu.Lock()
	defer e.mu.Unlock()
	for _, p := range e.procs {
		p.Close()
	}
	e.procs = map[string]*stdh.Proc{}
}

// Progressed reports whether a run got past the format's first header: some
// output, a decoded image config, a token or a hash.
func Progressed(r *stdh.Resp) bool {
	return len(r.Out) > 0 || r.HaveImage || len(r.Tokens) > 0 || len(r.Hash) > 0
}
